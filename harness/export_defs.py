"""
Export the definition tables of the pyubx2 *working tree* to JSON for the TLA+ specification.

Generic walker: makes no assumption about which messages exist.  Anything it cannot classify is
exported with k="?" so that the grammar invariant (UbxGrammar) fails on it rather than the exporter.

All integers that can reach 2^31 are exported as little-endian byte lists (TLC ints are 32 bit).
"""

import json
import re
import sys

TYPE_RE = re.compile(r"^[A-Z]\d{3}$")


def _entry_field(name, typ, scale=None):
    size = -1
    if isinstance(typ, str) and TYPE_RE.match(typ):
        size = int(typ[1:4])
    return {
        "k": "f",
        "n": name,
        "t": typ if isinstance(typ, str) else "?",
        "s": size,
        "sc": 0 if scale is None else 1,
        "scale": "" if scale is None else repr(scale),
        "ck": "",
        "cv": "",
        "cn": 0,
        "sub": [],
    }


def _walk(d):
    out = []
    if not isinstance(d, dict):
        return [{"k": "?", "n": "?", "t": "?", "s": 0, "sc": 0, "scale": "", "ck": "", "cv": "", "cn": 0, "sub": []}]
    for name, v in d.items():
        name = str(name)
        if isinstance(v, str):
            out.append(_entry_field(name, v))
        elif isinstance(v, list) and len(v) == 2 and isinstance(v[0], str) and isinstance(v[1], (int, float)):
            out.append(_entry_field(name, v[0], v[1]))
        elif isinstance(v, tuple) and len(v) == 2 and isinstance(v[1], dict):
            n, sub = v
            if isinstance(n, str) and TYPE_RE.match(n) and n[0] == "X":
                flags = []
                for fn, ft in sub.items():
                    ok = isinstance(ft, str) and TYPE_RE.match(ft)
                    flags.append(
                        {
                            "k": "x" if ok else "?",
                            "n": str(fn),
                            "t": ft if isinstance(ft, str) else "?",
                            "s": int(ft[1:4]) if ok else 0,
                            "sc": 0, "scale": "", "ck": "", "cv": "", "cn": 0, "sub": [],
                        }
                    )
                e = _entry_field(name, n)
                e["k"] = "b"
                e["sub"] = flags
                out.append(e)
            else:
                e = _entry_field(name, "", None)
                e["k"] = "g"
                e["t"] = ""
                e["s"] = 0
                if isinstance(n, bool):
                    e["k"] = "?"
                elif isinstance(n, int):
                    e["ck"], e["cn"] = "fixed", n
                elif n == "None":
                    e["ck"] = "var"
                elif isinstance(n, str):
                    e["ck"], e["cv"] = "attr", n
                else:
                    e["k"] = "?"
                e["sub"] = _walk(sub)
                out.append(e)
        else:
            e = _entry_field(name, "?")
            e["k"] = "?"
            out.append(e)
    return out


def export(path=None):
    import pyubx2
    from pyubx2 import ubxtypes_core as core
    from pyubx2 import ubxtypes_configdb as cdb
    from pyubx2.ubxtypes_get import UBX_PAYLOADS_GET
    from pyubx2.ubxtypes_set import UBX_PAYLOADS_SET
    from pyubx2.ubxtypes_poll import UBX_PAYLOADS_POLL
    from pyubx2.ubxvariants import VARIANTS
    from pyubx2.ubxmessage import UBXMessage
    from pynmeagps import NMEA_HDR
    from pyubx2 import ubxtypes_decodes as dec

    types = sorted(
        {
            v
            for k, v in vars(core).items()
            if isinstance(v, str) and k.isupper() and (TYPE_RE.match(v) or v == "CH") and not k.startswith("UBX")
        }
    )
    defs = {
        "GET": {k: _walk(v) for k, v in UBX_PAYLOADS_GET.items()},
        "SET": {k: _walk(v) for k, v in UBX_PAYLOADS_SET.items()},
        "POLL": {k: _walk(v) for k, v in UBX_PAYLOADS_POLL.items()},
    }
    modename = {core.GET: "GET", core.SET: "SET", core.POLL: "POLL"}
    out = {
        "version": pyubx2.version,
        "file": pyubx2.__file__,
        "types": types,
        "atttype_keys": sorted(core.ATTTYPE.keys()),
        "msgids": [{"key": list(k), "name": v} for k, v in core.UBX_MSGIDS.items()],
        "classes": [{"key": list(k), "name": v} for k, v in core.UBX_CLASSES.items()],
        "defs": defs,
        "variants": {modename[m]: [list(k) for k in d] for m, d in VARIANTS.items()},
        "reserved": sorted(n for n in dir(UBXMessage) if not n.startswith("_")),
        "cfgdb": [
            {"n": k, "key": list(int(v[0]).to_bytes(4, "little")), "t": v[1]}
            for k, v in cdb.UBX_CONFIG_DATABASE.items()
        ],
        "storsize": [{"code": int(k), "size": int(v)} for k, v in cdb.UBX_CONFIG_STORSIZE.items()],
        "nmea_b2": sorted({h[1] for h in NMEA_HDR if len(h) == 2 and h[0] == 0x24}),
        "gnsslist": [{"k": int(k), "v": str(v)} for k, v in getattr(dec, "GNSSLIST", {}).items()],
        "fixtype": [{"k": int(k), "v": str(v)} for k, v in getattr(dec, "FIXTYPE", {}).items()],
        "nmea_hdr_other": [list(h) for h in NMEA_HDR if not (len(h) == 2 and h[0] == 0x24)],
    }
    if path:
        with open(path, "w") as f:
            json.dump(out, f, separators=(",", ":"))
    return out


if __name__ == "__main__":
    export(sys.argv[1])
