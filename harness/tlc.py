"""
TLC runner: runs one TLC invocation under a timeout and parses its output.

Exit conventions used by the callers: a TLC crash / parse error / timeout is a *machinery* failure
(MachineryError -> exit 2), never a property violation.
"""

import json
import os
import re
import shutil
import subprocess
import time

VERIF = os.path.dirname(os.path.dirname(os.path.abspath(__file__)))
SPEC = os.path.join(VERIF, "spec")
JAR = "/opt/veriftools/tla/tla2tools.jar:/opt/veriftools/tla/CommunityModules-deps.jar"


class MachineryError(Exception):
    pass


class TlcResult:
    def __init__(self):
        self.generated = 0
        self.distinct = 0
        self.prints = []  # decoded PrintT strings
        self.violated = []  # names of violated invariants / properties
        self.errors = []
        self.coverage = {}  # action name -> (distinct, total)
        self.wall = 0.0
        self.rc = None
        self.raw_tail = ""
        self.depth = 0

    def as_dict(self):
        return {
            "generated": self.generated,
            "distinct": self.distinct,
            "violated": self.violated,
            "coverage": {k: list(v) for k, v in self.coverage.items()},
            "wall_s": round(self.wall, 2),
            "depth": self.depth,
        }


_RE_STATES = re.compile(r"^(\d+) states generated, (\d+) distinct states found")
_RE_VIOL = re.compile(r"^Error: Invariant (\w+) is violated")
_RE_TVIOL = re.compile(r"^Error: (Temporal properties were violated|Action property (\w+) is violated)")
_RE_COV = re.compile(r"^<(\w+) line \d+, col \d+ to line \d+, col \d+ of module (\w+)>: (\d+):(\d+)")
_RE_DEPTH = re.compile(r"^The depth of the complete state graph search is (\d+)")
_NOISE = re.compile(r"^(Semantic processing|Linting of|Parsing file|Computed \d+ initial)")


def run(
    module,
    cfg,
    workdir,
    env=None,
    workers=16,
    timeout=900,
    cont=False,
    coverage=False,
    simulate=None,
    depth=None,
    seed=None,
    heap=None,
    keep_prints=True,
    print_sink=None,
    deque=False,
):
    """Run TLC on spec/<module>.tla with spec/<cfg>.  Returns TlcResult.

    print_sink: optional callable receiving each decoded PrintT string (for large dumps, avoids
    keeping them all in memory).
    """
    os.makedirs(workdir, exist_ok=True)
    meta = os.path.join(workdir, "meta-%s-%d" % (os.path.basename(cfg).replace(".cfg", ""), os.getpid()))
    jopts = "-Xss256m"
    if deque:
        jopts += " -Dtlc2.tool.queue.IStateQueue=StateDeque"
    cmd = ["java", "-XX:+UseParallelGC"]
    if heap:
        cmd.append("-Xmx" + heap)
    cmd += ["-cp", JAR, "tlc2.TLC", "-workers", str(workers), "-noGenerateSpecTE", "-metadir", meta]
    cmd += ["-config", os.path.join(SPEC, cfg)]
    if cont:
        cmd.append("-continue")
    if coverage:
        cmd += ["-coverage", "1"]
    if simulate:
        cmd += ["-simulate", simulate]
    if depth:
        cmd += ["-depth", str(depth)]
    if seed is not None:
        cmd += ["-seed", str(seed)]
    cmd.append(os.path.join(SPEC, module + ".tla"))
    e = dict(os.environ)
    e["JAVA_TOOL_OPTIONS"] = jopts
    if env:
        e.update({k: str(v) for k, v in env.items()})
    res = TlcResult()
    t0 = time.time()
    tail = []
    try:
        p = subprocess.Popen(cmd, cwd=workdir, env=e, stdout=subprocess.PIPE, stderr=subprocess.STDOUT, text=True, errors="replace")
    except OSError as ex:
        raise MachineryError("cannot start TLC: %s" % ex)
    deadline = t0 + timeout
    import threading

    def killer():
        while p.poll() is None:
            if time.time() > deadline:
                p.kill()
                return
            time.sleep(0.5)

    th = threading.Thread(target=killer, daemon=True)
    th.start()
    finished_ok = False
    for line in p.stdout:
        line = line.rstrip("\n")
        if line.startswith('"'):
            try:
                s = json.loads(line)
            except ValueError:
                s = line
            if print_sink is not None:
                print_sink(s)
            elif keep_prints:
                res.prints.append(s)
            continue
        if _NOISE.match(line):
            continue
        tail.append(line)
        if len(tail) > 400:
            del tail[:200]
        m = _RE_STATES.match(line)
        if m:
            res.generated, res.distinct = int(m.group(1)), int(m.group(2))
            continue
        m = _RE_VIOL.match(line)
        if m:
            res.violated.append(m.group(1))
            continue
        m = _RE_TVIOL.match(line)
        if m:
            res.violated.append(m.group(2) or "TEMPORAL")
            continue
        m = _RE_COV.match(line)
        if m:
            nm = m.group(1)
            d, t = int(m.group(3)), int(m.group(4))
            od, ot = res.coverage.get(nm, (0, 0))
            res.coverage[nm] = (od + d, ot + t)
            continue
        m = _RE_DEPTH.match(line)
        if m:
            res.depth = int(m.group(1))
            continue
        if line.startswith("Model checking completed") or line.startswith("Finished in"):
            finished_ok = True
        if line.startswith("Error:") and "is violated" not in line and "behavior up to this point" not in line:
            res.errors.append(line)
    p.wait()
    res.rc = p.returncode
    res.wall = time.time() - t0
    res.raw_tail = "\n".join(tail[-120:])
    shutil.rmtree(meta, ignore_errors=True)
    if time.time() > deadline and not finished_ok:
        raise MachineryError("TLC timed out after %ds on %s/%s\n%s" % (timeout, module, cfg, res.raw_tail[-2000:]))
    if not finished_ok and not simulate:
        raise MachineryError("TLC did not finish on %s/%s (rc=%s)\n%s" % (module, cfg, res.rc, res.raw_tail[-3000:]))
    # errors other than invariant violations (evaluation errors, parse errors) are machinery failures
    hard = [x for x in res.errors if not x.startswith("Error: The behavior")]
    if hard and not res.violated:
        raise MachineryError("TLC error on %s/%s: %s\n%s" % (module, cfg, hard[:3], res.raw_tail[-3000:]))
    return res


def apalache(module, args, workdir, timeout=900):
    """run apalache-mc check on spec/<module>.tla; returns (outcome, seconds): outcome in {"NoError", "Error", "unavailable"}"""
    exe = shutil.which("apalache-mc")
    if not exe:
        return "unavailable", 0.0
    out = os.path.join(workdir, "apalache-%d" % os.getpid())
    t0 = time.time()
    try:
        p = subprocess.run([exe, "check"] + list(args) + ["--out-dir=" + out, os.path.join(SPEC, module + ".tla")], cwd=workdir,
                           capture_output=True, text=True, timeout=timeout)
        txt = p.stdout + p.stderr
    except subprocess.TimeoutExpired:
        shutil.rmtree(out, ignore_errors=True)
        return "unavailable", time.time() - t0
    shutil.rmtree(out, ignore_errors=True)
    if "The outcome is: NoError" in txt:
        return "NoError", time.time() - t0
    if "The outcome is: Error" in txt:
        return "Error", time.time() - t0
    return "unavailable", time.time() - t0


def sany(module):
    cmd = ["java", "-cp", JAR, "tla2sany.SANY", os.path.join(SPEC, module + ".tla")]
    p = subprocess.run(cmd, cwd=SPEC, capture_output=True, text=True)
    ok = p.returncode == 0 and "Semantic errors" not in p.stdout and "Parse Error" not in p.stdout and "Fatal errors" not in p.stdout
    return ok, p.stdout[-3000:]
