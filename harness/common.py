"""
Shared machinery: environment, check context, trace batches, evidence, findings, replays.
"""

import hashlib
import json
import os
import random
import shutil
import subprocess
import sys
import time

from . import tlc
from .tlc import MachineryError

VERIF = tlc.VERIF
REPO = os.environ.get("VERIF_REPO", "/repo")
SEED = int(os.environ.get("VERIF_SEED", "0") or 0)


def setup_repo_path():
    """Put the working tree first on sys.path and make sure that is what gets imported."""
    src = os.path.join(REPO, "src")
    if src in sys.path:
        sys.path.remove(src)
    sys.path.insert(0, src)
    sys.dont_write_bytecode = True
    import pyubx2

    real = os.path.realpath(pyubx2.__file__)
    if not real.startswith(os.path.realpath(src) + os.sep):
        raise MachineryError("pyubx2 imported from %s, not from %s" % (real, src))
    return pyubx2


def load_findings():
    p = os.path.join(VERIF, "known_findings.json")
    if not os.path.exists(p):
        return []
    with open(p) as f:
        return json.load(f)["findings"]


def _match(entry_match, sig):
    for k, v in entry_match.items():
        if k not in sig:
            return False
        s = sig[k]
        if isinstance(v, list):
            if s not in v:
                return False
        elif s != v:
            return False
    return True


class Ctx:
    """One run of one property check."""

    def __init__(self, prop, tier):
        self.prop = prop
        self.tier = tier
        self.seed = SEED
        self.t0 = time.time()
        self.work = os.path.join(VERIF, "build", "%s-%d" % (prop, os.getpid()))
        os.makedirs(self.work, exist_ok=True)
        self.states = 0
        self.transitions = 0
        self.traces = 0
        self.evaluations = 0
        self.nontrivial = 0
        self.samples = []
        self.violations = []  # dicts: clause, sig, case, replay
        self.known_hits = {}
        self.notes = []
        self.tlc_runs = []
        self.neg_rejected = 0
        self.neg_total = 0
        self.extra = {}
        self.drifts = []
        self.ext = {}
        self.ext_unmodelled = 0
        self.assumptions = []
        self.rule = ""
        self.exhaustive = None
        self.findings = [f for f in load_findings() if f["property"] == prop]
        self.thorough = tier == "thorough"
        self.rng = random.Random((SEED << 8) ^ (int(prop[1:]) if prop[1:].isdigit() else 0))

    # ------------------------------------------------------------------ TLC
    def defs_file(self):
        p = os.path.join(self.work, "defs.json")
        if not os.path.exists(p):
            from . import export_defs

            self.defs = export_defs.export(p)
        return p

    def mc(self, module, cfg, expect_violation=None, env=None, **kw):
        """Model-checking run of a *design-level* configuration.  A violated invariant here means the
        specification is inconsistent with itself -> machinery failure, unless expect_violation names
        the invariant a demonstration configuration is *supposed* to violate."""
        e = {"DEFS_FILE": self.defs_file()}
        if env:
            e.update(env)
        r = tlc.run(module, cfg, self.work, env=e, **kw)
        self.states += r.distinct
        self.transitions += r.generated
        d = r.as_dict()
        d["module"], d["cfg"] = module, cfg
        self.tlc_runs.append(d)
        if expect_violation:
            exp = [expect_violation] if isinstance(expect_violation, str) else list(expect_violation)
            if not any(x in r.violated for x in exp):
                raise MachineryError(
                    "demonstration config %s should violate %s but TLC found %s" % (cfg, expect_violation, r.violated)
                )
            d["expected_violation_found"] = [x for x in exp if x in r.violated]
        elif r.violated:
            raise MachineryError("design-level model %s/%s violates %s:\n%s" % (module, cfg, r.violated, r.raw_tail[-3000:]))
        return r

    def validate(self, module, cfg, events, env=None, timeout=900, label=None, nreal=None):
        """Code -> spec: validate a batch of recorded events (one trace each) with the trace spec.
        Returns the list of verdict strings (index-aligned with events)."""
        if not events:
            return []
        label = label or module
        path = os.path.join(self.work, "trace-%s-%d.json" % (label, len(self.tlc_runs)))
        with open(path, "w") as f:
            json.dump(events, f, separators=(",", ":"))
        e = {"DEFS_FILE": self.defs_file(), "TRACE_FILE": path}
        if env:
            e.update(env)
        verdicts = ["ok"] * len(events)
        seen = [0]

        def sink(s):
            if isinstance(s, str) and s.startswith("D "):
                try:
                    t = int(s.split(" ", 2)[1])
                except ValueError:
                    t = 0
                if nreal is None or t <= nreal:  # notes about negative controls are not notes about the code
                    self.drifts.append(s[2:])
            elif isinstance(s, str) and s.startswith("N "):
                self.ext_unmodelled += 1
            elif isinstance(s, str) and s.startswith("E "):
                # divergence from a part of the specification no listed property covers (spec growth): a NOTE
                parts = s.split(" ", 2)
                t = int(parts[1])
                if nreal is None or t <= nreal:
                    self.ext_divergence(parts[2], {"trace": _clip_event(events[t - 1])})
            elif isinstance(s, str) and s.startswith("V "):
                parts = s.split(" ", 2)
                verdicts[int(parts[1]) - 1] = parts[2] if len(parts) > 2 else "?"
                seen[0] += 1

        r = tlc.run(module, cfg, self.work, env=e, timeout=timeout, print_sink=sink)
        os.remove(path)
        if r.violated:
            raise MachineryError("trace spec %s reported invariant violation %s" % (module, r.violated))
        if r.distinct != 2 * len(events):
            raise MachineryError(
                "trace spec %s evaluated %d states for %d traces (expected %d)\n%s"
                % (module, r.distinct, len(events), 2 * len(events), r.raw_tail[-2000:])
            )
        self.states += r.distinct
        self.transitions += r.generated
        self.traces += len(events)
        d = r.as_dict()
        d["module"], d["cfg"], d["traces"] = module, cfg, len(events)
        self.tlc_runs.append(d)
        return verdicts

    # ------------------------------------------------------------ verdicts
    def negative_controls(self, verdicts, events):
        """events flagged neg=1 must be rejected by the spec (binding / vacuity control)."""
        for v, ev in zip(verdicts, events):
            if ev.get("neg"):
                self.neg_total += 1
                if v not in ("ok", "triv"):
                    self.neg_rejected += 1
                else:
                    raise MachineryError(
                        "negative control accepted by the trace spec (verdict %s): %s" % (v, json.dumps(ev)[:600])
                    )

    def violation(self, clause, sig, case):
        """Record a violation; returns True if new, False if it matches a known finding."""
        sig = dict(sig)
        sig["clause"] = clause
        for f in self.findings:
            if f.get("status") == "known" and _match(f["match"], sig):
                k = f["id"]
                self.known_hits.setdefault(k, {"what": f["what"], "count": 0, "example": case})
                self.known_hits[k]["count"] += 1
                return False
        self.violations.append({"clause": clause, "sig": sig, "case": case})
        return True

    def ext_divergence(self, clause, case):
        """the code diverges from a part of the specification that no listed property covers: recorded, reported as NOTE"""
        e = self.ext.setdefault(clause, {"count": 0, "example": _deep_clip(case)})
        e["count"] += 1

    def sample(self, x, limit=6):
        # (samples are illustrations: long strings and lists - a megabyte-sized stream, a 64 KiB frame - are clipped)
        if len(self.samples) < limit:
            self.samples.append(_deep_clip(x))

    def note(self, s):
        if len(self.notes) < 200:
            self.notes.append(s)

    # ------------------------------------------------------------ finishing
    def finish(self):
        wall = time.time() - self.t0
        rc = 0
        lines = []
        for k, h in sorted(self.known_hits.items()):
            lines.append("KNOWN-FINDING: property=%s %s [%s, %d case(s)]" % (self.prop, h["what"], k, h["count"]))
        # group violations by clause+sig to keep the replay directory small
        groups = {}
        for v in self.violations:
            key = json.dumps(v["sig"], sort_keys=True)
            groups.setdefault(key, []).append(v)
        if os.environ.get("VERIF_DEBUG"):
            with open(os.path.join(VERIF, "build", "violations-%s.json" % self.prop), "w") as f:
                json.dump(self.violations, f, default=str)
        rdir = os.path.join(os.environ.get("VERIF_REPLAY_DIR", os.path.join(VERIF, "replays")), self.prop)
        nrep = 0
        for key, vs in groups.items():
            v = vs[0]
            body = {"property": self.prop, "clause": v["clause"], "sig": v["sig"], "case": v["case"],
                    "tier": self.tier, "seed": self.seed, "similar": len(vs)}
            h = hashlib.sha1(json.dumps(body["case"], sort_keys=True).encode()).hexdigest()[:16]
            path = os.path.join(rdir, h + ".json")
            if nrep < 40:
                os.makedirs(rdir, exist_ok=True)
                with open(path, "w") as f:
                    json.dump(body, f, indent=1)
                nrep += 1
                lines.append("VIOLATION property=%s replay=%s clause=%s similar=%d" % (self.prop, path, v["clause"], len(vs)))
            rc = 1
        cov = {
            "states": self.states,
            "transitions": self.transitions,
            "traces_validated_against_impl": self.traces,
            "samples": self.samples[:8] or ["(no sample recorded)"],
            "evaluations": self.evaluations,
            "distinct_nontrivial": self.nontrivial,
            "rule": self.rule,
            "tlc_runs": self.tlc_runs,
            "negative_controls_rejected": self.neg_rejected,
            "negative_controls_total": self.neg_total,
            "known_findings_hit": {k: {"what": h["what"], "count": h["count"]} for k, h in self.known_hits.items()},
            "notes": self.notes[:100],
        }
        if self.ext_unmodelled:
            cov["extension_not_modelled_cases"] = self.ext_unmodelled
        if self.ext:
            cov["extension_divergences"] = self.ext
            for k, e in sorted(self.ext.items()):
                lines.append("NOTE spec-extension-divergence property=%s %s (%d case(s)); not a violation: no listed property covers it" % (self.prop, k, e["count"]))
        if self.exhaustive is not None:
            cov["exhaustive"] = bool(self.exhaustive)
        cov.update(self.extra)
        ev = {
            "property_id": self.prop,
            "tier": self.tier,
            "seed": self.seed,
            "level": "model_checking",
            "coverage": cov,
            "assumptions": self.assumptions,
            "wall_s": round(wall, 2),
            "violations": len(self.violations),
        }
        evdir = os.environ.get("VERIF_EVIDENCE_DIR", os.path.join(VERIF, "evidence"))
        os.makedirs(evdir, exist_ok=True)
        evp = os.path.join(evdir, self.prop + ".json")
        with open(evp, "w") as f:
            json.dump(ev, f, indent=1, default=str)
        validate_evidence(evp)
        for l in lines:
            print(l)
        print(
            "%s %s: %s  states=%d transitions=%d traces=%d evaluations=%d nontrivial=%d known=%d wall=%.1fs"
            % (self.prop, self.tier, "FAIL" if rc else "PASS", self.states, self.transitions, self.traces,
               self.evaluations, self.nontrivial, len(self.known_hits), wall)
        )
        shutil.rmtree(self.work, ignore_errors=True)
        return rc


def _deep_clip(x, depth=0):
    if isinstance(x, str):
        return x if len(x) <= 1200 else x[:1200] + "...(%d characters)" % len(x)
    if isinstance(x, (list, tuple)):
        y = [_deep_clip(v, depth + 1) for v in list(x)[:48]]
        return y if len(x) <= 48 else y + ["...(%d items)" % len(x)]
    if isinstance(x, dict):
        return {k: _deep_clip(v, depth + 1) for k, v in x.items()} if depth < 6 else "{...}"
    return x


def _clip_event(ev):
    out = {}
    for k, v in ev.items():
        if isinstance(v, list) and len(v) > 64:
            out[k] = v[:64] + ["...(%d)" % len(v)]
        elif isinstance(v, str) and len(v) > 600:
            out[k] = v[:600] + "..."
        elif isinstance(v, dict):
            out[k] = "{...}"
        else:
            out[k] = v
    return out


def validate_evidence(path):
    code = (
        "import json,sys,jsonschema;"
        "s=json.load(open('/root/.vp/EVIDENCE.schema.json'));"
        "jsonschema.validate(json.load(open(sys.argv[1])),s)"
    )
    if not os.path.exists("/root/.vp/EVIDENCE.schema.json") or not shutil.which("python3-vt"):
        return
    p = subprocess.run(["python3-vt", "-c", code, path], capture_output=True, text=True)
    if p.returncode != 0:
        raise MachineryError("evidence file does not validate: " + p.stderr[-1500:])


def hexs(b):
    return bytes(b).hex()


def fletcher(data):
    """harness-side checksum used only to *generate* inputs (the judge is Fletcher8 in TLA+)."""
    a = b = 0
    for c in data:
        a = (a + c) & 0xFF
        b = (b + a) & 0xFF
    return bytes((a, b))


def steer(cls, mid, payload, ck):
    """the payload with its last two bytes chosen so that the frame's Fletcher checksum is exactly ck (2 bytes); needs len >= 2"""
    p = bytearray(payload)
    body = bytes((cls, mid)) + len(p).to_bytes(2, "little") + bytes(p[:-2])
    a0, b0 = fletcher(body)
    A, B = ck
    x = (B - b0 - a0 - A) % 256
    y = (A - a0 - x) % 256
    p[-2], p[-1] = x, y
    assert fletcher(bytes((cls, mid)) + len(p).to_bytes(2, "little") + bytes(p)) == bytes(ck)
    return bytes(p)


def colliding_frames(rng, cls, mid, plen, want=2, cap=600000):
    """pairs of DIFFERENT well-formed frames of one message (same length) that collide under the cheap 32-bit digests code tends to key
    caches with - crc32 / adler32 of the whole frame and of the payload - found by birthday search (about 2^16.5 random payloads per
    crc32 pair).  Returns {digest name: [(frameA, frameB), ...]}"""
    import zlib

    fns = {"crc32-frame": lambda f: zlib.crc32(f), "crc32-payload": lambda f: zlib.crc32(f[6:-2]),
           "adler32-frame": lambda f: zlib.adler32(f), "adler32-payload": lambda f: zlib.adler32(f[6:-2])}
    seen = {k: {} for k in fns}
    out = {k: [] for k in fns}
    n = 0
    while n < cap and any(len(v) < want for v in out.values()):
        n += 1
        f = frame(cls, mid, rng.randbytes(plen))
        for k, fn in fns.items():
            if len(out[k]) >= want:
                continue
            h = fn(f)
            g = seen[k].get(h)
            if g is None:
                seen[k][h] = f
            elif g != f:
                out[k].append((g, f))
    return out


STEER_TARGETS = (b"\r\n", b"\n\r", b"\x00\x00", b"\xff\xff", b"\xb5\x62", b"$G", b"\xd3\x00", b"\n\n", b"*7")


def frame(cls, mid, payload):
    body = bytes((cls, mid)) + len(payload).to_bytes(2, "little") + bytes(payload)
    return b"\xb5\x62" + body + fletcher(body)
