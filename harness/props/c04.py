"""
C04 - every constructed message serialises to a well-formed frame.

For every reachable (mode, definition) (TLC layouts): routes {no keywords, payload= conforming bytes, payload= arbitrary bytes,
keywords (attributes of a parsed frame)} x addressing {bytes, ints, names}; config_set / config_del / config_poll with names and IDs.
T_Frame!JudgeC04: WellFormed(serialize()) with the specification's own Fletcher-8, length field = actual payload length, payload
embedded, the addressing forms agree, UBXReader.parse accepts the frame in the same mode and re-serialises to the same bytes.
"""

from ..drivers import build, walk
from . import replay_one, run_batch

MODULE, CFG = "T_Frame", "T_Frame.cfg"


def sigfn(o, i, ev, v):
    return {"observer": o, "mode": i.get("m", -1), "def": i.get("name", i.get("fn", "")), "route": i.get("route", ""), "kind": v}


def negfn(ev):
    if ev.get("built") == "msg" and len(ev.get("ser", [])) >= 8:
        g = dict(ev)
        g["ser"] = ev["ser"][:-1] + [(ev["ser"][-1] + 1) % 256]
        return g
    return None


def names_for(defs, cls, mid, bfix):
    cname = None
    for c in defs["classes"]:
        if c["key"] == [cls]:
            cname = c["name"]
    mname = None
    for m in defs["msgids"]:
        if m["key"] == [cls, mid]:
            mname = m["name"]
    if mname is None:
        for m in defs["msgids"]:
            if m["key"][:2] == [cls, mid] and len(m["key"]) == 3 and any(b["o"] == 0 and b["v"] == m["key"][2] for b in bfix):
                mname = m["name"]
    if cname is None or mname is None:
        return None
    # the name form must resolve to the same ID (first match wins in the library's reverse lookup)
    return [cname, mname]


def alias_names(defs, cls, mid):
    """every [class name, message name] the tables map to this class / ID (2- and 3-byte message keys)"""
    cname = next((c["name"] for c in defs["classes"] if c["key"] == [cls]), None)
    if cname is None:
        return []
    return [[cname, m["name"]] for m in defs["msgids"] if m["key"][:2] == [cls, mid]]


def jsonable_kwargs(msg):
    out = {}
    for k, v in vars(msg).items():
        if k.startswith("_"):
            continue
        if isinstance(v, (bytes, bytearray)):
            out[k] = {"hex": bytes(v).hex()}
        else:
            out[k] = v
    return out


def run(ctx):
    rng = ctx.rng
    ctx.rule = ("every reachable (mode, definition) x route {none, payload conforming, payload arbitrary, keywords} x addressing {bytes, ints, names}; "
                "config helpers with 0..64 items by name and by ID; non-trivial = construction succeeded and the frame was judged; "
                "distinct by (mode, class/ID, route, payload)")
    ctx.defs_file()
    defs = ctx.defs
    walk.CFGTYPES = {e["n"]: e["t"] for e in defs["cfgdb"]}
    lays = [l for l in walk.load_layouts(ctx, "MC_Walk_quick.cfg") if l["reachable"] and l["pbf"] and l["c"] in ((0, 1, 2, 3) if ctx.thorough else (0, 1))]
    cfgdb = defs["cfgdb"]

    def gen():
        seen = set()
        for li, l in enumerate(lays):
            nm = names_for(defs, l["cls"], l["id"], l["bfix"])
            base = {"m": l["m"], "cls": l["cls"], "id": l["id"], "name": l["name"], "names": nm}
            if (l["m"], l["name"]) not in seen:
                seen.add((l["m"], l["name"]))
                yield ("c04", dict(base, route="none", P=None, kwargs=None))
                for n in (1, 2, 7, 33, 300):
                    yield ("c04", dict(base, route="payload", P=rng.randbytes(n).hex(), kwargs=None, _k="arb:%d:%d:%d" % (li, n, rng.random() * 1e9)))
            for pat in ("zero", "rand") if not ctx.thorough else ("zero", "ones", "rand", "rand", "count"):
                P = walk.fill(l, pat, rng, cfgdb)
                yield ("c04", dict(base, route="payload", P=P.hex(), kwargs=None))
                # keywords: the attributes a parse of P reports
                P0 = build.zero_hp(l, P)
                msg0, pre, _ = walk.parse_payload(l["m"], l["cls"], l["id"], 1, P0)
                if msg0 is not None:
                    kw = jsonable_kwargs(msg0)
                    if kw:
                        try:
                            import json
                            json.dumps(kw)
                        except (TypeError, ValueError):
                            continue
                        yield ("c04", dict(base, route="kw", P=None, kwargs=kw, _k="kw:%d:%s:%s" % (li, pat, P0.hex()[:40])))
        # sparse keyword builds: ONE attribute (and, where the first attribute looks like a discriminator - type / version / msgVer ... -
        # that attribute with table and non-table values plus one other): whatever the library decides to build must be accepted again
        for li, l in enumerate(lays):
            if l["c"] != 1:
                continue
            nm = names_for(defs, l["cls"], l["id"], l["bfix"])
            ex = [e for e in l["lay"] if e["x"] == 1 and e["k"] in ("f", "x") and not e["n"].startswith("_HP") and e["k"] == "f" and e["t"][:1] in "UIEL" and e["sc"] == 0]
            if not ex:
                continue
            base = {"m": l["m"], "cls": l["cls"], "id": l["id"], "name": l["name"], "names": nm, "route": "kw", "P": None}
            yield ("c04", dict(base, kwargs={ex[-1]["n"]: 1}, _k="sparse:%d:last" % li))
            if len(ex) > 1 and ex[0]["n"] in ("type", "version", "msgVer", "msgType", "subType", "dataType"):
                for dv in (0, 1, 2, 3, 16, 255):
                    yield ("c04", dict(base, kwargs={ex[0]["n"]: dv, ex[1]["n"]: 3}, _k="sparse:%d:%d" % (li, dv)))
        # variable-length text attributes given as BYTES (character attributes take str or bytes): whatever the bytes are - ISO 8859-1
        # text, truncated or overlong UTF-8, encoded surrogates, arbitrary bytes - the frame built must be accepted again
        for li, l in enumerate(lays):
            chs = [e for e in l["lay"] if e["k"] == "f" and e["t"] == "CH"]
            if len(chs) != 1 or l["c"] != 1:
                continue
            nm = names_for(defs, l["cls"], l["id"], l["bfix"])
            fixes = {f["n"]: f["v"] for f in l["fixes"]}
            for ti, txt in enumerate((b"Antenna temp 25\xb0C", b"\xff\xfe", b"abc\xc3", b"\xed\xa0\x80", b"\xc0\x80", b"\x80", b"caf\xe9 \xb5b", rng.randbytes(24), b"plain", b"")):
                yield ("c04", {"m": l["m"], "cls": l["cls"], "id": l["id"], "name": l["name"], "names": nm, "route": "kw", "P": None,
                               "kwargs": dict(fixes, **{chs[0]["n"]: {"hex": txt.hex()}}), "_k": "chbytes:%d:%d" % (li, ti)})
        # messages obtained by a lenient (VALNONE) parse of a damaged frame (checksum byte or payload byte substituted): "however a
        # message is obtained", what it serialises to is a well-formed frame
        from ..common import frame as _frame

        for li, l in enumerate(lays):
            if l["c"] != 1 or li % (1 if ctx.thorough else 4):
                continue
            P = walk.fill(l, "rand", rng, cfgdb)
            f = bytearray(_frame(l["cls"], l["id"], P))
            for pos in ((len(f) - 1, len(f) - 2) + ((6 + rng.randrange(len(P)),) if P else ())):
                g = bytearray(f)
                g[pos] ^= 1 << rng.randrange(8)
                yield ("c04", {"m": l["m"], "cls": l["cls"], "id": l["id"], "name": l["name"], "names": None, "route": "lenient", "f": bytes(g).hex(),
                               "P": None, "kwargs": None, "_k": "len:%d:%d" % (li, pos)})
        # constructions whose checksum bytes look like something else (line ends, sync characters): steered through the last two payload bytes
        from ..common import STEER_TARGETS, steer

        for (c, i, m) in ((0x77, 0x01, 0), (0x04, 0x02, 0), (0x06, 0x08, 1), (0x0A, 0x04, 0)):
            nm = names_for(defs, c, i, [])
            for n in (6, 30):
                for tgt in STEER_TARGETS:
                    P = steer(c, i, rng.randbytes(n), tgt)
                    yield ("c04", {"m": m, "cls": c, "id": i, "name": "%02x%02x" % (c, i), "names": nm, "route": "payload", "P": P.hex(), "kwargs": None,
                                   "_k": "steer:%02x%02x:%d:%s" % (c, i, n, tgt.hex())})
        # payloads around the 16-bit length limit: construction must be refused or the frame must be well-formed
        inf = [l for l in lays if l["name"] in ("INF-NOTICE", "RXM-PMP-V1", "MON-VER") and l["c"] == 1][:3]
        for l in inf:
            nm = names_for(defs, l["cls"], l["id"], l["bfix"])
            for n in (65534, 65535, 65536, 65537, 70000) if ctx.thorough else (65535, 65536, 66000):
                yield ("c04", {"m": l["m"], "cls": l["cls"], "id": l["id"], "name": l["name"], "names": nm, "route": "payload",
                               "P": rng.randbytes(n).hex(), "kwargs": None, "_k": "big:%s:%d" % (l["name"], n)})
        for n in (65535, 65536, 70000):
            yield ("c04", {"m": 0, "cls": 4, "id": 2, "name": "INF-NOTICE", "names": ["INF", "INF-NOTICE"], "route": "kw", "P": None,
                           "kwargs": {"message": "x" * n}, "_k": "bigkw:%d" % n})
        # configuration helpers
        for n in (0, 1, 2, 5, 63, 64):
            for byname in (True, False):
                items = rng.sample(cfgdb, n)
                keys = [(e["n"] if byname else int.from_bytes(bytes(e["key"]), "little")) for e in items]
                vals = []
                for e in items:
                    t, sz = e["t"][:1], int(e["t"][1:4])
                    if t in "UEL":
                        vals.append(rng.randrange(2 if t == "L" else 1 << (8 * sz)))
                    elif t == "I":
                        vals.append(rng.randrange(-(1 << (8 * sz - 1)), 1 << (8 * sz - 1)))
                    elif t == "R":
                        vals.append(rng.random() * 100)
                    else:
                        vals.append({"hex": rng.randbytes(sz).hex()})
                pairs = [[k, (bytes.fromhex(v["hex"]) if isinstance(v, dict) else v)] for k, v in zip(keys, vals)]
                if any(isinstance(p[1], bytes) for p in pairs):
                    pairs = [p for p in pairs if not isinstance(p[1], bytes)]
                yield ("c04cfg", {"fn": "config_set", "a": rng.choice((1, 2, 4, 7)), "b": rng.choice((0, 1, 2, 3)), "items": pairs, "m": 1})
                yield ("c04cfg", {"fn": "config_del", "a": rng.choice((2, 4, 6)), "b": rng.choice((0, 1, 2, 3)), "items": keys, "m": 1})
                yield ("c04cfg", {"fn": "config_poll", "a": rng.choice((0, 1, 2, 7)), "b": rng.randrange(0, 1000), "items": keys, "m": 2})

    run_batch(ctx, MODULE, CFG, gen(), build.OBSERVERS, sigfn, negfn, chunk=6000)

    # every class/ID the message-ID table knows - with or without a payload definition (the NMEA / RTCM3 pseudo-messages that CFG-MSG
    # refers to) - as a payload-less message in every mode, by bytes and by integers (and by name where the name is unique),
    # one after the other in ONE interpreter: neighbouring IDs that share a name must not share a frame
    def gen_ids():
        keys = sorted({(m["key"][0], m["key"][1]) for m in defs["msgids"]})
        names = {}
        for m in defs["msgids"]:
            names.setdefault(m["name"], set()).add(tuple(m["key"][:2]))
        for mode in (0, 1, 2):
            for (c, i) in keys:
                nm = names_for(defs, c, i, [])
                if nm is not None and len(names.get(nm[1], ())) != 1:
                    nm = None
                yield ("c04", {"m": mode, "cls": c, "id": i, "name": "%02x%02x" % (c, i), "names": nm, "route": "none", "P": None, "kwargs": None})

    run_batch(ctx, MODULE, CFG, list(gen_ids()), build.OBSERVERS, sigfn, negfn, chunk=6000, parallel=False)
    # message types (re)registered by the application at run time, in child interpreters (each case a fresh one)
    from . import run_opt

    for step in (0, 1, 2):
        for route, P in (("none", None), ("payload", "0102030405")):
            run_opt(ctx, MODULE, CFG, "build:c04ext", [{"cls": 0x99, "step": step, "route": route, "P": P, "m": 0, "name": "XYZ-STAT"}], sigfn, flags_list=((),), parts=1)
    ctx.exhaustive = False


def replay(ctx, body):
    ctx.defs_file()
    replay_one(ctx, MODULE, CFG, build.OBSERVERS, body, sigfn)
