"""
C13 - immutable messages, no side effects.

MC_Object (TLC): every interleaving of 3 workers x 2 operations x 3 micro steps: the world (tables, stdout/stderr) is untouched,
results are a function of the input.  TLC -simulate on the same module generates SCHEDULES (interleavings of micro steps).
T_World (TLC) validates traces recorded in fresh interpreters:
 (a) setattr / delattr of existing, private, new, property and method names on messages of every definition;
 (b)+(c) probe operations evaluated fresh, then again after seeded histories (incl. histories ending in errors); fd-level
     capture of stdout/stderr and a digest of all shared tables after every operation;
 (d) the TLC schedules replayed by a deterministic source-line-level scheduler (sys.settrace), and free-running threads.
"""

import json

from ..common import MachineryError, frame
from ..drivers import build, walk, world
from . import replay_one, run_batch

MODULE, CFG = "T_World", "T_World.cfg"


def sigfn(o, i, ev, v):
    return {"observer": o, "mode": i.get("mode"), "kind": ":".join(v.split(":")[:2]), "detail": v.split(":")[-1]}


def negfn(ev):
    import copy

    g = copy.deepcopy(ev)
    if ev["mode"] == "attrs":
        if g["events"]:
            g["events"][len(g["events"]) // 2][2] = "accepted"
            return g
        return None
    ends = [k for k, e in enumerate(g["events"]) if e[0] == "end"]
    if len(ends) >= 2:
        g["events"][ends[-1]][4] = 7  # pretend 7 bytes were written
        return g
    return None


def op_pool(ctx, lays):
    rng = ctx.rng
    cfgdb = ctx.defs["cfgdb"]
    ops = []
    chosen = [l for l in lays if l["reachable"] and l["c"] in (1, 2)]
    rng.shuffle(chosen)
    want = {"CFG-TP5", "CFG-TP5-TPX", "NAV-PVT", "NAV-SAT", "MON-VER", "RXM-RAWX", "ESF-MEAS", "CFG-VALGET", "CFG-VALSET", "MGA-GPS-EPH",
            "CFG-NMEA", "NAV-HPPOSLLH", "CFG-GNSS", "MON-SPAN", "NAV-RELPOSNED", "RXM-PMP-V1", "SEC-SIG-V2", "CFG-DAT", "TIM-VCOCAL", "INF-NOTICE"}
    pick = [l for l in chosen if l["name"] in want][:60] + chosen[:80]
    for l in pick:
        P = walk.fill(l, rng.choice(("rand", "count", "ones")), rng, cfgdb)
        f = frame(l["cls"], l["id"], P)
        pbf = 1 if l["pbf"] else 0
        ops.append({"kind": "parse", "f": f.hex(), "mode": l["m"], "pbf": pbf})
        # cut inside a group / bitfield: error path
        if len(P) > 3:
            ops.append({"kind": "parse", "f": frame(l["cls"], l["id"], P[:rng.randrange(1, len(P))]).hex(), "mode": l["m"], "pbf": pbf})
        # payload longer than the definition (trailing bytes after the last field / a ragged last group item)
        ops.append({"kind": "parse", "f": frame(l["cls"], l["id"], P + rng.randbytes(rng.randrange(1, 4))).hex(), "mode": l["m"], "pbf": pbf})
        # the same message as other firmware generations send it: 4 / 8 bytes shorter or longer
        for d in (-8, -4, 4, 8):
            Q = P[:d] if d < 0 else P + bytes(d)
            if len(Q) > 0 and len(ops) % 3 == 0:
                ops.append({"kind": "parse", "f": frame(l["cls"], l["id"], Q).hex(), "mode": l["m"], "pbf": pbf})
        # wrong mode
        ops.append({"kind": "parse", "f": f.hex(), "mode": (l["m"] + 1) % 3, "pbf": pbf})
        if l["m"] in (1, 2):
            # input messages with automatic mode resolution
            ops.append({"kind": "parse", "f": f.hex(), "mode": 3, "pbf": pbf})
        msg0, pre, _ = walk.parse_payload(l["m"], l["cls"], l["id"], pbf, build.zero_hp(l, P))
        if msg0 is not None:
            kw = {}
            for k, v in vars(msg0).items():
                if k.startswith("_"):
                    continue
                kw[k] = {"hex": bytes(v).hex()} if isinstance(v, (bytes, bytearray)) else v
            try:
                json.dumps(kw)
            except (TypeError, ValueError):
                continue
            if kw:
                ops.append({"kind": "construct", "cls": l["cls"], "id": l["id"], "mode": l["m"], "pbf": pbf, "kwargs": kw})
                bad = dict(kw)
                k0 = rng.choice(list(bad))
                bad[k0] = "not-a-number"
                ops.append({"kind": "construct", "cls": l["cls"], "id": l["id"], "mode": l["m"], "pbf": pbf, "kwargs": bad})
    # messages the library does not know (unknown class / id / MGA type), with and without payload, in every mode
    for c, i in ((0x77, 0x12), (0x06, 0x99), (0x01, 0xEE), (0x13, 0x00), (0x13, 0x99), (0xF0, 0x7F)):
        for m in (0, 1, 2):
            ops.append({"kind": "parse", "f": frame(c, i, rng.randbytes(rng.randrange(1, 9))).hex(), "mode": m, "pbf": 1})
        ops.append({"kind": "parse", "f": frame(c, i, b"").hex(), "mode": 0, "pbf": 1})
        ops.append({"kind": "parse", "f": frame(0x05, 0x01, bytes((c, i))).hex(), "mode": 0, "pbf": 1})   # ACK naming that class/id (str() decodes it)
    # keyword constructions that leave array / group attributes to their nominal value
    for c, i, m, kw in ((0x0A, 0x31, 0, {"version": 0, "numRfBlocks": 2}), (0x02, 0x73, 0, {"gnssId": 5}), (0x0A, 0x31, 0, {"version": 0, "numRfBlocks": 1})):
        ops.append({"kind": "construct", "cls": c, "id": i, "mode": m, "pbf": 1, "kwargs": kw})
    # the short CFG polls whose mode the SETPOLL heuristic resolves by class/ID (each twice: the second evaluation must agree with the first)
    for c, i, pl in ((6, 0, b"\x01"), (6, 1, b"\x01\x07"), (6, 2, b"\x00"), (6, 0x31, b"\x00"), (6, 0x31, b"\x01"), (6, 1, b"\xf0\x00")):
        ops.append({"kind": "parse", "f": frame(c, i, pl).hex(), "mode": 3, "pbf": 1})
        ops.append({"kind": "parse", "f": frame(c, i, pl).hex(), "mode": 2, "pbf": 1})
    # configuration-database traffic: CFG-VALGET (GET) / CFG-VALSET (SET) frames holding key lists, helpers addressed by integer key ID
    for l in [x for x in lays if x["reachable"] and x["c"] == 0 and x["pbf"] and ((x["name"] == "CFG-VALSET" and x["m"] == 1) or (x["name"] == "CFG-VALGET" and x["m"] == 0))]:
        for _ in range(4):
            P = walk.fill(l, "rand", rng, cfgdb)
            ops.append({"kind": "parse", "f": frame(l["cls"], l["id"], P).hex(), "mode": l["m"], "pbf": 1})
    for _ in range(6):
        es = [e for e in rng.sample(cfgdb[len(cfgdb) // 2:], 6) if e["t"][0] in "UEL"]
        ops.append({"kind": "config", "fn": "config_set", "a": 1, "b": 0, "items": [[int.from_bytes(bytes(e["key"]), "little"), 1] for e in es]})
        ops.append({"kind": "config", "fn": "config_del", "a": 1, "b": 0, "items": [int.from_bytes(bytes(e["key"]), "little") for e in es]})
    for _ in range(12):
        es = rng.sample(cfgdb, rng.randrange(1, 8))
        es = [e for e in es if e["t"][0] in "UEL"]
        ops.append({"kind": "config", "fn": "config_set", "a": 1, "b": 0, "items": [[e["n"], 1] for e in es]})
        ops.append({"kind": "config", "fn": "config_poll", "a": 0, "b": 0, "items": [e["n"] for e in es]})
    from ..drivers import streams as st

    pool = st.frame_pool(rng)
    for _ in range(10):
        ops.append({"kind": "stream", "S": st.garbage_stream(rng, pool, rng.randrange(3, 12)).hex(), "mode": 0})
    # class and ID given as names - also names that do not belong together (the ID name of another class): whatever is built, silently
    for cn, mn, mode in (("NAV", "NAV-PVT", 2), ("NAV", "CFG-MSG", 2), ("CFG", "NAV-PVT", 2), ("CFG", "ACK-ACK", 0), ("MGA", "MGA-GPS-EPH", 2), ("ACK", "NAV-CLOCK", 0),
                         ("NAV", "CFG-MSG", 2), ("XYZ", "NAV-PVT", 0), ("NAV", "NAV-NOSUCH", 0)):
        ops.append({"kind": "construct_names", "cls": cn, "id": mn, "mode": mode})
    # the same entry points with every option given positionally (a sample of each kind)
    for kind in ("parse", "construct", "stream"):
        same = [o for o in ops if o["kind"] == kind and not o.get("pos")]
        for o in rng.sample(same, min(len(same), 12)):
            ops.append(dict(o, pos=1))
    return ops


def schedules(ctx, n, seed):
    from .. import tlc

    out = []
    r = tlc.run("MC_Object", "MC_Object_sched.cfg", ctx.work, workers=1, simulate="num=%d" % n, depth=80, seed=seed,
                print_sink=lambda s: out.append(json.loads(s)) if s.startswith("[[") else None, timeout=300)
    d = r.as_dict()
    d["module"], d["cfg"], d["schedules"] = "MC_Object", "MC_Object_sched.cfg (-simulate)", len(out)
    ctx.tlc_runs.append(d)
    if not out:
        raise MachineryError("TLC produced no schedules")
    return out


def run(ctx):
    rng = ctx.rng
    big = ctx.thorough
    ctx.rule = ("(a) set/delete of existing (5), all private, new, property and method names on a message of every reachable definition; "
                "(b,c) 6 probe operations evaluated fresh and again after seeded histories of 30-60 operations (parses incl. truncated and "
                "wrong-mode frames, keyword constructions incl. failing ones, config helpers, stream reads), stdout/stderr captured at fd level "
                "and tables digested after every operation; (d) TLC-generated interleavings of 3 workers replayed at source-line granularity, "
                "and free-running threads.  Non-trivial = a trace with at least one completed operation judged; distinct by case")
    ctx.defs_file()
    walk.CFGTYPES = {e["n"]: e["t"] for e in ctx.defs["cfgdb"]}
    ctx.mc("MC_Object", "MC_Object.cfg")
    lays = walk.load_layouts(ctx, "MC_Walk_quick.cfg")
    ops = op_pool(ctx, lays)
    ctx.extra["operation_pool"] = len(ops)
    scheds = schedules(ctx, 300 if big else 40, ctx.seed + 11)
    cfgdb = ctx.defs["cfgdb"]

    def gen():
        # (a) attributes
        msgs = []
        seen = set()
        for l in lays:
            if not l["reachable"] or l["c"] != 1 or (l["m"], l["name"]) in seen:
                continue
            seen.add((l["m"], l["name"]))
            P = walk.fill(l, "count", rng, cfgdb)
            msgs.append({"how": "parse", "f": frame(l["cls"], l["id"], P).hex(), "mode": l["m"], "pbf": 1 if l["pbf"] else 0,
                         "defnames": sorted({e["n"] for e in l["lay"] if e["k"] in ("f", "x") and e["x"] == 0 or e["n"].startswith("_")})})
        msgs.append({"how": "construct", "cls": 6, "id": 1, "mode": 1, "kwargs": {"msgClass": 1, "msgID": 7, "rateUART1": 1}})
        msgs.append({"how": "construct", "cls": 6, "id": 0x8B, "mode": 2, "kwargs": {"payload": {"hex": "00000000"}}})
        for k in range(0, len(msgs), 50):
            yield ("world", {"_k": "attrs:%d" % k, "mode": "attrs", "msgs": msgs[k:k + 50]})
        # ... and on the twins of a sample of them: unpickled (1), deep-copied (2), copied (3)
        for tw in (1, 2, 3):
            pick = msgs[tw::7] + msgs[-2:]
            yield ("world", {"_k": "attrs:twin:%d" % tw, "mode": "attrs", "msgs": [dict(x, twin=tw) for x in pick]})
        # (b, c) histories
        for k in range(400 if big else 36):
            idx = list(range(len(ops)))
            probes = rng.sample(idx, 6)
            hist = [rng.choice(idx) for _ in range(rng.randrange(30, 61))]
            yield ("world", {"_k": "hist:%d" % k, "mode": "history", "ops": ops, "probes": probes, "history": hist})
        # (d) schedules from TLC
        # operation families that share lazily initialised / looked-up state (configuration database, variant selectors, identities):
        # in every second schedule the three workers run operations of ONE family, and the interleaving is the first use of the
        # library in that interpreter (reference results are taken afterwards)
        fams = {}
        for j, o in enumerate(ops):
            if o["kind"] == "config" or (o["kind"] in ("parse", "construct") and (o.get("cls") == 6 and o.get("id") in (0x8A, 0x8B) or o.get("f", "")[4:8] in ("068a", "068b"))):
                fams.setdefault("cfg", []).append(j)
            elif o["kind"] == "parse":
                fams.setdefault("p" + o["f"][4:6], []).append(j)
            elif o["kind"] == "construct":
                fams.setdefault("c%02x" % o["cls"], []).append(j)
        famkeys = sorted(k for k, v in fams.items() if len(v) >= 3)
        for k, sc in enumerate(scheds):
            if k % 2 and famkeys:
                fk = "cfg" if (k % 4 == 1 and "cfg" in famkeys) else famkeys[(k // 2) % len(famkeys)]
                a, b, c = rng.sample(fams[fk], 3)
                yield ("world", {"_k": "sched1st:%d" % k, "mode": "scheduled", "ops": ops, "map": {"a": a, "b": b, "c": c}, "schedule": sc, "steps": 4,
                                 "seqfirst": 0, "quantum": (5, 25, 60, 150)[(k // 2) % 4]})
            else:
                a, b, c = rng.sample(range(len(ops)), 3)
                yield ("world", {"_k": "sched:%d" % k, "mode": "scheduled", "ops": ops, "map": {"a": a, "b": b, "c": c}, "schedule": sc, "steps": 4})
        for k in range(30 if big else 6):
            probes = rng.sample(fams["cfg"], min(5, len(fams["cfg"]))) if (k % 2 and "cfg" in fams) else rng.sample(range(len(ops)), 5)
            yield ("world", {"_k": "thr:%d" % k, "mode": "threads", "ops": ops, "probes": probes, "threads": 4, "reps": 15, "seqfirst": 1 - k % 2})

    run_batch(ctx, MODULE, CFG, gen(), world.OBSERVERS, sigfn, negfn, chunk=400, neg_every=3, parallel="threads")

    # (c') the COMPLETE definition set in several orders: parse (and keyword construction) of every reachable (mode, definition),
    # executed in identity / reversed / grouped-by-message / shuffled order, each order in a fresh interpreter; one result per input
    def gen_orders():
        allops = []
        for l in lays:
            if not l["reachable"] or l["c"] != 1 or not l["pbf"]:
                continue
            for pat in ("count", "rand", "small"):
                P = walk.fill(l, pat, rng, cfgdb)
                allops.append(((l["cls"], l["id"], l["m"]), {"kind": "parse", "f": frame(l["cls"], l["id"], P).hex(), "mode": l["m"], "pbf": 1}))
            if l["len"] is not None and l["len"] > 8:
                for d in (-8, 8):  # other firmware generations: shorter / longer
                    Q = P[:d] if d < 0 else P + bytes(d)
                    allops.append(((l["cls"], l["id"], l["m"]), {"kind": "parse", "f": frame(l["cls"], l["id"], Q).hex(), "mode": l["m"], "pbf": 1}))
        extra = [o for o in ops if o["kind"] == "construct" and len(o["kwargs"]) <= 2] + [o for o in ops if o["kind"] == "parse" and len(o["f"]) <= 40]
        for o in extra[:60]:
            allops.append(((o.get("cls", 0), o.get("id", 0), o.get("mode", 0)), o))
        keys = [k for k, _ in allops]
        opl = [o for _, o in allops]
        n = len(opl)
        ident = list(range(n))
        bymsg = sorted(ident, key=lambda i: (keys[i][0], keys[i][1], keys[i][2]))
        bymsg_rev = sorted(ident, key=lambda i: (keys[i][0], keys[i][1], -keys[i][2]))
        orders = [ident, ident[::-1], bymsg, bymsg_rev]
        for _ in range(6 if big else 2):
            sh = ident[:]
            rng.shuffle(sh)
            orders.append(sh)
        ctx.extra["order_permutation_ops"] = n
        ctx.extra["order_permutations"] = len(orders)
        yield ("orders", {"_k": "orders", "mode": "history", "ops": opl, "orders": orders})

    run_batch(ctx, MODULE, CFG, gen_orders(), world.OBSERVERS, sigfn, negfn, chunk=10, neg_every=1)
    ctx.exhaustive = False
    ctx.assumptions += ["interleavings are explored at Python source-line granularity (pyubx2 is pure Python); pre-emption inside a C-level call is not",
                        "each trace is recorded in a fresh interpreter; stdout/stderr are observed at file-descriptor level"]


def replay(ctx, body):
    replay_one(ctx, MODULE, CFG, world.OBSERVERS, body, sigfn)
