"""Constructor half of C16's usability clause: the nominal instance of every keyword-constructible (message, mode)."""

from ..drivers import build, walk
from . import c03, run_batch


def nominal_build(ctx, lays):
    rng = ctx.rng
    cfgdb = ctx.defs["cfgdb"]

    def sigfn(o, i, ev, v):
        s = c03.sigfn(o, i, ev, v)
        s["kind"] = "usable-build:" + s["kind"].split(":", 1)[1]
        return s

    def gen():
        for li, l in enumerate(lays):
            if not l["reachable"] or l["c"] != 0:
                continue
            P0 = build.zero_hp(l, walk.fill(l, "zero", rng, cfgdb))
            names = [e["n"] for e in l["lay"] if e["x"] == 1 and e["k"] in ("f", "x") and not e["n"].startswith("_HP")]
            keep = set(f["n"] for f in l["fixes"]) | set(c03.disc_names(l))
            only = sorted(keep | set(names[:1]))
            yield ("c03", {"_k": "nom:%d" % li, "lay": l, "P0": P0.hex(), "only": only})

    run_batch(ctx, "T_Build", "T_Build.cfg", gen(), build.OBSERVERS, sigfn, c03.negfn, chunk=6000)
