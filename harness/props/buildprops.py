"""Constructor half of C16's usability clause: the nominal instance of every keyword-constructible (message, mode)."""

from ..drivers import build, walk
from . import c03, run_batch


def nominal_build(ctx, lays):
    rng = ctx.rng
    cfgdb = ctx.defs["cfgdb"]

    def sigfn(o, i, ev, v):
        s = c03.sigfn(o, i, ev, v)
        s["kind"] = "usable-build:" + s["kind"].split(":", 1)[1]
        return s

    def gen():
        for li, l in enumerate(lays):
            if not l["reachable"] or l["c"] != 0:
                continue
            P0 = build.zero_hp(l, walk.fill(l, "zero", rng, cfgdb))
            names = [e["n"] for e in l["lay"] if e["x"] == 1 and e["k"] in ("f", "x") and not e["n"].startswith("_HP")]
            keep = set(f["n"] for f in l["fixes"]) | set(c03.disc_names(l))
            only = sorted(keep | set(names[:1]))
            yield ("c03", {"_k": "nom:%d" % li, "lay": l, "P0": P0.hex(), "only": only})
        # attributes whose NAMES are related within one definition (equal but for case, one a prefix of the other, equal but for a
        # digit): each supplied alone (with the structural attributes), with a non-zero value - every other attribute stays nominal
        for li, l in enumerate(lays):
            if not l["reachable"] or l["c"] not in (0, 1):
                continue
            def _plain(e):
                # (scaled fields are left to C03: the value 'one raw unit' of a 2^-43 scale does not survive the 12-decimal rounding - D9a)
                return not (e["k"] == "f" and e["sc"] == 1)

            names = [e["n"] for e in l["lay"] if e["x"] == 1 and e["k"] in ("f", "x") and not e["n"].startswith("_HP") and _plain(e)]
            rel = set()
            low = {}
            for n in names:
                low.setdefault(n.lower(), []).append(n)
            for grp in low.values():
                if len(grp) > 1:
                    rel.update(grp)
            for a in names:
                for b in names:
                    if a != b and len(a) >= 4 and b.startswith(a) and not b[len(a):].lstrip("_").isdigit():
                        rel.update((a, b))
            if not rel:
                continue
            keep = set(f["n"] for f in l["fixes"]) | set(c03.disc_names(l))
            P1 = build.zero_hp(l, walk.fill(l, "one", rng, cfgdb))
            for n in sorted(rel)[:8]:
                yield ("c03", {"_k": "rel:%d:%s" % (li, n), "lay": l, "P0": P1.hex(), "only": sorted(keep | {n})})

    run_batch(ctx, "T_Build", "T_Build.cfg", gen(), build.OBSERVERS, sigfn, c03.negfn, chunk=6000)
