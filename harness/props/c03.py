"""
C03 - keyword construction encodes exactly the values supplied.

MC_Walk (TLC): design lemma BuildParseRoundTrip on every definition x count x view.
code -> spec (T_Build): (i) every TLC layout is filled, parsed by the real code, the reported attribute values are fed back
into the real constructor: built payload = UbxBuild!Build(kw); (ii) random subsets of attributes (omitted ones must be
zero/blank); (iii) raw-value sweeps of every (type, scale) pair in the tables (exhaustive for 1- and 2-byte fields).
"""

from ..drivers import build, walk
from . import replay_one, run_batch

MODULE, CFG = "T_Build", "T_Build.cfg"


def field_info(i, ev, v):
    """which field differs, is it scaled, and by how much (for the known-finding signature)"""
    lay = i["lay"]
    name = v.split(":")[2] if v.count(":") >= 2 else ""
    info = {"attr": name.split("_")[0] if not name.startswith("_HP") else name, "scaled": 0, "delta": "", "tiny_scale": 0}
    for e in lay["lay"]:
        if e["n"] == name and e["k"] == "f":
            info["scaled"] = e["sc"]
            info["type"] = e["t"]
            if e["sc"] == 1 and e["t"][:1] in "UIE":
                try:
                    info["tiny_scale"] = 1 if abs(float(e["scale"])) < 2e-12 else 0
                    P0 = bytes.fromhex(i["P0"])
                    P = bytes(ev["P"])
                    sg = e["t"][:1] == "I"
                    want = int.from_bytes(P0[e["off"]:e["off"] + e["size"]], "little", signed=sg)
                    got = int.from_bytes(P[e["off"]:e["off"] + e["size"]], "little", signed=sg)
                    d = got - want
                    if d == 0:
                        info["delta"] = "0"
                    elif abs(d) == 1 and abs(got) < abs(want):
                        info["delta"] = "one-unit-toward-zero"
                    else:
                        info["delta"] = "other"
                except Exception:  # noqa: BLE001
                    info["delta"] = "?"
            break
    return info


def sigfn(o, i, ev, v):
    lay = i["lay"]
    s = {"observer": o, "mode": lay["m"], "def": lay["name"], "pbf": 1 if lay["pbf"] else 0, "kind": ":".join(v.split(":")[:2])}
    s.update(field_info(i, ev, v))
    if s["kind"] == "C03:construction-refused":
        s["refusal_due_to_tiny_scale"] = refusal_probe(i)
    if s["kind"] == "C03:parser-reported-value-refused":
        s["refusal_due_to_float_base_of_hp_pair"] = hp_probe(i)
    return s


def hp_probe(i):
    """is the refusal explained by this alone: the parser reports the UNSCALED integer base attribute of a high-precision pair
    (ecefX + _HPecefX ...) as a float?  (re-construct with exactly those attributes turned back into integers: must be accepted; what is then built is judged by the
    other clauses when it comes about through other routes)"""
    lay = i["lay"]
    bases = {e["n"][3:] for e in lay["lay"] if e["k"] == "f" and e["n"].startswith("_HP")}
    plain = {e["n"] for e in lay["lay"] if e["k"] == "f" and e["n"] in bases and e["sc"] == 0 and e["t"][:1] in "IU"}
    if not plain:
        return 0
    P0 = bytes.fromhex(i["P0"])
    pbf = 1 if lay["pbf"] else 0
    msg0, pre, _ = walk.parse_payload(lay["m"], lay["cls"], lay["id"], pbf, P0)
    if msg0 is None:
        return 0
    kw = {k: v for k, v in vars(msg0).items() if not k.startswith("_")}
    for n in plain:
        if isinstance(kw.get(n), float) and kw[n] == int(kw[n]):
            kw[n] = int(kw[n])
    msg, out = build.construct(lay["m"], lay["cls"], lay["id"], pbf, kw)
    return 1 if out == "msg" and len(msg.payload or b"") == len(P0) else 0


def refusal_probe(i):
    """is the refusal explained by the sub-1e-12 scale factors alone?  (re-construct without those attributes)"""
    lay = i["lay"]
    tiny = set()
    for e in lay["lay"]:
        try:
            if e["k"] == "f" and e["sc"] == 1 and abs(float(e["scale"])) < 2e-12:
                tiny.add(e["n"])
        except ValueError:
            pass
    if not tiny:
        return 0
    P0 = bytes.fromhex(i["P0"])
    pbf = 1 if lay["pbf"] else 0
    msg0, pre, _ = walk.parse_payload(lay["m"], lay["cls"], lay["id"], pbf, P0)
    if msg0 is None:
        return 0
    kw = {k: v for k, v in vars(msg0).items() if not k.startswith("_") and k not in tiny}
    if i.get("only") is not None:
        kw = {k: v for k, v in kw.items() if k in i["only"]}
    msg, out = build.construct(lay["m"], lay["cls"], lay["id"], pbf, kw)
    return 1 if out == "msg" else 0


def negfn(ev):
    if ev.get("out") == "msg" and ev.get("P"):
        g = dict(ev)
        g["P"] = [(ev["P"][0] + 1) % 256] + ev["P"][1:]
        return g
    return None


def sweep_cases(ctx, lays):
    """(iii) one host field per (type, scale) pair, raw value swept"""
    rng = ctx.rng
    hosts = {}
    for l in lays:
        if not l["reachable"] or not l["pbf"] or l["c"] != 1:
            continue
        for e in l["lay"]:
            if e["k"] == "f" and e["sc"] == 1 and e["t"][:1] in "UIE" and not e["n"].startswith("_HP"):
                hosts.setdefault((e["t"], e["scale"]), (l, e))
    ctx.extra["scaled_type_scale_pairs"] = len(hosts)
    cfgdb = ctx.defs["cfgdb"]
    for (t, sc), (l, e) in sorted(hosts.items()):
        n = e["size"]
        base = bytearray(build.zero_hp(l, walk.fill(l, "zero", rng, cfgdb)))
        if n == 1:
            raws = range(256)
        elif n == 2:
            raws = range(65536) if ctx.thorough else sorted(set(list(range(0, 300)) + list(range(65236, 65536)) + [rng.randrange(65536) for _ in range(400)] + [32767, 32768]))
        else:
            top = 1 << (8 * n)
            b = [0, 1, 2, 3, 9, 10, 99, 100, 255, 256, 1000, 12345677, 12345678, top // 2 - 1, top // 2, top // 2 + 1, top - 2, top - 1]
            raws = sorted(set(x % top for x in b + [rng.randrange(top) for _ in range(20000 if ctx.thorough else 300)]))
        for r in raws:
            P = bytearray(base)
            P[e["off"]:e["off"] + n] = int(r).to_bytes(n, "little")
            yield ("c03", {"_k": "sweep:%s:%s:%d" % (t, sc, r), "lay": l, "P0": bytes(P).hex(), "only": [e["n"]] + [f["n"] for f in l["fixes"]] + disc_names(l)})


def disc_names(l):
    out = []
    # in the raw-bitfield view a group count that lives in a bit flag is supplied through the raw bitfield that holds it
    if not l["pbf"]:
        fixn = {f["n"] for f in l["fixes"]}
        offs = {e["off"] for e in l["lay"] if e["k"] == "x" and e["n"] in fixn}
        out += [e["n"] for e in l["lay"] if e["k"] == "f" and e["x"] == 1 and e["t"][:1] == "X" and e["off"] in offs]
    for bf in l["bfix"]:
        for e in l["lay"]:
            if e["k"] == "f" and e["off"] == bf["o"] and e["x"] == 1:
                out.append(e["n"])
    return out


def run(ctx):
    from . import c04 as _c04

    rng = ctx.rng
    ctx.rule = ("(i) every reachable layout (TLC) x fillings parsed and fed back into the constructor; (ii) random attribute subsets; "
                "(iii) raw sweeps of every (type, scale) pair (1-byte exhaustive, 2-byte exhaustive in thorough, wider boundary+random). "
                "Non-trivial = keyword-constructible, all supplied values representable, construction compared with UbxBuild!Build; "
                "distinct by (layout, payload, subset)")
    ctx.defs_file()
    walk.CFGTYPES = {e["n"]: e["t"] for e in ctx.defs["cfgdb"]}
    lays = walk.load_layouts(ctx, "MC_Walk_thorough.cfg" if ctx.thorough else "MC_Walk_quick.cfg")
    cfgdb = ctx.defs["cfgdb"]

    def gen():
        for li, l in enumerate(lays):
            if not l["reachable"]:
                continue
            if not ctx.thorough and l["c"] == 3:
                continue
            for pat in ("zero", "ones", "min", "max", "count", "rand", "fpedge", "small") if not ctx.thorough else ("zero", "ones", "min", "max", "one", "count", "rand", "rand", "fpedge", "fpedge", "small"):
                P0 = build.zero_hp(l, walk.fill(l, pat, rng, cfgdb))
                yield ("c03", {"_k": "rt:%d:%s:%s" % (li, pat, P0.hex()[:48]), "lay": l, "P0": P0.hex(), "only": None,
                               "alias": _c04.alias_names(ctx.defs, l["cls"], l["id"])})
            if any(e["k"] == "f" and e["t"][:1] == "R" for e in l["lay"]):
                for rep in range(3):
                    P0 = build.zero_hp(l, walk.fill(l, "fint", rng, cfgdb))
                    yield ("c03", {"_k": "fint:%d:%d:%s" % (li, rep, P0.hex()[:48]), "lay": l, "P0": P0.hex(), "only": None, "asint": 1})
            # (ii) random subset: drop ~half of the non-structural attributes
            P0 = build.zero_hp(l, walk.fill(l, "rand", rng, cfgdb))
            keep = set(f["n"] for f in l["fixes"]) | set(disc_names(l))
            names = [e["n"] for e in l["lay"] if e["x"] == 1 and not e["n"].startswith("_HP")]
            only = [n for n in names if n in keep or rng.random() < 0.5]
            yield ("c03", {"_k": "sub:%d:%s" % (li, P0.hex()[:48]), "lay": l, "P0": P0.hex(), "only": only,
                           "alias": _c04.alias_names(ctx.defs, l["cls"], l["id"])})

    run_batch(ctx, MODULE, CFG, gen(), build.OBSERVERS, sigfn, negfn, chunk=5000)

    # a sample of the same cases in child interpreters started with -O / -OO, another hash seed, time zone and locale variables
    from . import run_opt

    _pool = [i for o, i in gen() if o == "c03"]
    ctx.rng.shuffle(_pool)
    run_opt(ctx, MODULE, CFG, "build:c03", _pool[: (3000 if ctx.thorough else 500)], sigfn)
    run_batch(ctx, MODULE, CFG, sweep_cases(ctx, lays), build.OBSERVERS, sigfn, negfn, chunk=20000)
    # (iv) the same round trips right after a hostile history in the same interpreter (a construction refused inside a repeating
    # group, a parse failing half-way through a group, the message in another mode): what is built must not depend on it
    from ..drivers import history

    hists = history.recipes(lays, rng, walk.fill, cfgdb)

    def gen_hist():
        for li, l in enumerate(lays):
            if not l["reachable"] or l["c"] not in (1, 2) or not hists:
                continue
            P0 = build.zero_hp(l, walk.fill(l, "count", rng, cfgdb))
            yield ("c03", {"_k": "hist:%d:%s" % (li, P0.hex()[:48]), "lay": l, "P0": P0.hex(), "only": None, "hist": hists[li % len(hists)]})
            if l["c"] == 1:
                # ... and right after the same class / ID was tried in the other modes
                yield ("c03", {"_k": "sib:%d:%s" % (li, P0.hex()[:48]), "lay": l, "P0": P0.hex(), "only": None, "hist": history.siblings(l, P0)})

    run_batch(ctx, MODULE, CFG, gen_hist(), build.OBSERVERS, sigfn, negfn, chunk=5000)
    ctx.extra["hostile_histories"] = len(hists)
    # (v) concurrent first use: threads build messages with large repeating groups at the same moment in a fresh interpreter; what each
    # of them builds, and what is built sequentially afterwards, is judged like every other construction
    biglays = [l for l in walk.load_layouts(ctx, "MC_Walk_big.cfg") if l["reachable"] and l["pbf"] and l["m"] in (0, 1)]

    def sigmt(o, i, ev, v):
        # (the event may be a racer's or the later construction's: attribute the signature to the layout the event names)
        cand = [i["after"]] + list(i.get("racers", []))
        inp = next((x for x in cand if x["lay"]["cls"] == ev.get("cls") and x["lay"]["id"] == ev.get("id") and x["lay"]["m"] == ev.get("m")), i["after"])
        return sigfn(o, inp, ev, v)

    def gen_mt():
        grouped = [l for l in biglays if l["c"] >= 100 and not l["name"].startswith("CFG-VAL")][:6] or [l for l in lays if l["reachable"] and l["pbf"] and l["c"] == 3][:6]
        for rep in range(10 if not ctx.thorough else 60):
            racers = []
            for l in rng.sample(grouped, min(len(grouped), 3)):
                P0 = build.zero_hp(l, walk.fill(l, "count", rng, cfgdb))
                racers.append({"lay": l, "P0": P0.hex(), "only": None, "synthkw": 1})
            la = max(grouped, key=lambda l: l["c"]) if rep % 2 else rng.choice(grouped)
            after = {"lay": la, "P0": build.zero_hp(la, walk.fill(la, "count", rng, cfgdb)).hex(), "only": None, "synthkw": 1}
            for ti in (-1, 0, 1):
                c = {"_k": "mt:%d:%d" % (rep, ti), "racers": racers, "after": after, "threads": 4, "thread_index": ti}
                if ti >= 0:
                    c["after"] = racers[ti % len(racers)]  # (the event returned is that racer's)
                yield ("c03mt", c)

    def gen_preempt():
        # deterministic single pre-emptions of a construction with a 12-item group (fresh interpreter each; stride over the source lines)
        small = []
        for l in lays:
            # messages whose counted group really is populated from keywords (3 items): the construction round-trips sequentially
            if l["reachable"] and l["pbf"] and l["c"] == 3 and l["m"] in (0, 1) and l["fixes"] and any(e["n"].endswith("_03") for e in l["lay"]):
                probe = {"lay": l, "P0": build.zero_hp(l, walk.fill(l, "count", rng, cfgdb)).hex(), "only": None, "synthkw": 1}
                ev = build.obs_c03(probe)
                if ev["out"] == "msg" and bytes(ev["P"]).hex() == probe["P0"]:
                    small.append(l)
            if len(small) >= 12:
                break
        if len(small) < 2:
            return
        la, lb = small[0], small[min(7, len(small) - 1)]
        ctx.extra["preemption_racers"] = [la["name"], lb["name"]]
        bigafter = next((l for l in biglays if l["c"] >= 100 and l["name"] in ("NAV-SAT", "RXM-RAWX", "NAV-SBAS", "RXM-SFRBX", "CFG-GNSS")), None)
        mk = lambda l: {"lay": l, "P0": build.zero_hp(l, walk.fill(l, "count", rng, cfgdb)).hex(), "only": None, "synthkw": 1}  # noqa: E731
        # EVERY source line of the first racer's construction is a pre-emption point (each against a freshly imported library); the
        # sweep is split over 14 child interpreters.  What is built afterwards has MORE group items than anything built during the race
        racers = [mk(la), mk(lb)]
        after = mk(small[-1]) if bigafter is None else mk(bigafter)
        # number of source lines the first racer's construction executes (measured on this tree), so that the sweep covers all of it
        import os as _os
        import sys as _sys

        from ..common import REPO as _REPO

        _src = _os.path.join(_REPO, "src")
        _n = [0]

        def _loc(f, e, a):
            if e == "line":
                _n[0] += 1
            return _loc

        _sys.settrace(lambda f, e, a: _loc if f.f_code.co_filename.startswith(_src) else None)
        try:
            build.obs_c03(racers[0])
        finally:
            _sys.settrace(None)
        nlines = min(_n[0] + 20, 4000 if not ctx.thorough else 20000)
        ctx.extra["preemption_points"] = nlines
        for part in range(14):
            ks = list(range(1 + part, nlines, 14))
            yield ("c03mt", {"_k": "sweep:%d" % part, "racers": racers, "after": after, "ks": ks})

    run_batch(ctx, MODULE, CFG, list(gen_mt()) + list(gen_preempt()), build.OBSERVERS, sigmt, negfn, chunk=5000, parallel="threads")
    ctx.exhaustive = False
    ctx.assumptions += ["values are presented to the constructor exactly as the parser reported them for the same bytes",
                        "high-precision (_HP*) companion fields are zero in round-trip inputs (they fold into their base attribute when parsed)"]


def replay(ctx, body):
    ctx.defs_file()
    walk.CFGTYPES = {e["n"]: e["t"] for e in ctx.defs["cfgdb"]}
    replay_one(ctx, MODULE, CFG, build.OBSERVERS, body, sigfn)
