"""
C10 - reader output does not depend on how the transport chunks the bytes.

MC_Socket (TLC): the wrapper machine (one action per recv / call boundary) over EVERY segmentation of a byte sequence x bufsize x
call sequences: conservation, results exactly as the byte sequence prescribes.  MC_ReaderLemmas!LemmaSocket: reader over an
all-or-nothing source delivers the same items as over a file.
T_Socket (TLC): scripted sockets - every segmentation of short sequences (exhaustive), random segmentations of long streams,
bufsize in {1,2,3,5,64,4096}, close / timeout; and REAL delivery over socket.socketpair() from a concurrent sender thread; every recv()
logged by the socket object; read()/readline() results judged against ExpectRead / ExpectLine, reader items against the file run.
"""

import itertools

from ..drivers import sock, streams as st
from . import replay_one, run_batch

MODULE, CFG = "T_Socket", "T_Socket.cfg"


def sigfn(o, i, ev, v):
    return {"observer": o, "kind": ":".join(v.split(":")[:2]), "bufsize": i.get("bufsize"), "end": i.get("end"), "real": i.get("real", 0)}


def negfn(ev):
    import copy

    g = copy.deepcopy(ev)
    if ev["kind"] == "wrapper":
        op = ""
        for e in g["events"]:
            if e[0] == "call":
                op = e[1]
            if e[0] == "ret" and len(e[1]) > 0 and op != "write":
                e[1] = e[1][:-1]
                return g
        return None
    if ev["sockitems"]:
        g["sockitems"] = ev["sockitems"][:-1]
        return g
    return None


def all_cuts(n):
    for k in range(n):
        for c in itertools.combinations(range(1, n), k):
            yield list(c)


def run(ctx):
    rng = ctx.rng
    big = ctx.thorough
    ctx.rule = ("wrapper: ALL 2^(n-1) segmentations of 5 short sequences (n<=10/12) x bufsize {1,2,3,5,4096} x {close,timeout} x call scripts; "
                "random segmentations of long streams; reader: short streams x all segmentations, long clean/garbage streams x random segmentations, "
                "and real socketpair delivery from a sender thread.  Non-trivial = everything was delivered and the results were judged; "
                "distinct by (bytes, segmentation, bufsize, end, calls)")
    ctx.mc("MC_Socket", "MC_Socket_thorough.cfg" if big else "MC_Socket.cfg", timeout=1500)
    ctx.mc("MC_ReaderLemmas", "MC_ReaderLemmas_all4.cfg" if big else "MC_ReaderLemmas_all.cfg", timeout=1500)
    if big:
        # unbounded byte values, bounded lengths: Conservation as an inductive invariant, discharged symbolically by Apalache
        from .. import tlc as _tlc
        from ..common import MachineryError

        res = {}
        for name, args in (("base", ["--cinit=ConstInit", "--init=Init", "--inv=IndInv", "--length=0"]),
                           ("step", ["--cinit=ConstInit", "--init=IndInit", "--inv=IndInv", "--length=1"])):
            outcome, secs = _tlc.apalache("MC_SocketInd", args, ctx.work)
            res[name] = {"outcome": outcome, "wall_s": round(secs, 1)}
            if outcome == "Error":
                raise MachineryError("Apalache: the inductive invariant of MC_SocketInd fails (%s)" % name)
        ctx.extra["apalache_inductive_invariant"] = res
    bigpool = st.frame_pool(rng)
    # the wrapper traces are replayed byte by byte on the machine (spec/UbxSocket.tla): frames of tens of kilobytes are kept for the reader runs
    pool = [x for x in bigpool if len(x[0]) <= 2000]
    bigpool = bigpool + [x for x in st.special_frames(rng) if len(x[0]) > 7000]
    from ..common import frame

    shorts = [b"$G\n\xb5\x62\n\x00", frame(6, 0, b""), b"$GA\r\n$GB\n", st.rtcm_frame(b"\x3e"), b"\x00\xb5\x62\x05\x01\x02\x00\x06\x01\x0f\x38"[:10]]
    if big:
        shorts.append(frame(5, 1, b"\x06\x01") + b"\n")

    def scripts(S):
        n = len(S)
        yield [["read", 1]] * (n + 2)
        yield [["line", 0]] * 4
        yield [["read", 2], ["line", 0], ["read", 3], ["read", 0], ["line", 0], ["read", 4], ["read", 1]]
        yield [["read", n], ["read", 1]]
        yield [["read", n + 1], ["read", 1], ["line", 0]]
        yield [["write", 3], ["read", 2], ["write", 0], ["line", 0], ["write", 7], ["read", 1]]

    def gen_wrapper():
        for S in shorts:
            for cuts in all_cuts(len(S)):
                for bs in (1, 2, 3, 5, 4096):
                    for end in ("close", "timeout", "reset"):
                        for calls in scripts(S):
                            if not big and rng.random() < 0.6:
                                continue
                            yield ("wrapper", {"S": S.hex(), "cuts": cuts, "bufsize": bs, "end": end, "calls": calls})
        for _ in range(300 if not big else 3000):
            S = st.garbage_stream(rng, pool, rng.randrange(2, 12))
            cuts = sorted(rng.sample(range(1, max(2, len(S))), min(len(S) - 1, rng.randrange(0, 12)))) if len(S) > 2 else []
            calls = [rng.choice((["read", rng.randrange(0, 9)], ["line", 0], ["read", rng.randrange(1, 300)], ["write", rng.randrange(0, 40)])) for _ in range(rng.randrange(3, 40))]
            yield ("wrapper", {"S": S.hex(), "cuts": cuts, "bufsize": rng.choice((1, 2, 3, 5, 64, 4096)), "end": rng.choice(("close", "timeout", "reset")), "calls": calls})

    def gen_reader():
        for S in shorts:
            for cuts in all_cuts(len(S)):
                for bs in (1, 2, 3, 5, 4096):
                    if not big and rng.random() < 0.5:
                        continue
                    yield ("sockreader", {"S": S.hex(), "cuts": cuts, "bufsize": bs, "end": rng.choice(("close", "timeout", "reset")), "tls": len(cuts) % 2,
                                          "how": (len(cuts) + bs) % 4})
        # every very long frame / text line (tens of kilobytes, lines without LF for thousands of bytes) between two ordinary frames
        small = [x for x in pool if len(x[0]) < 60][:8]
        for k, x in enumerate(y for y in st.special_frames(rng) if len(y[0]) > 1000):
            S = small[k % len(small)][0] + x[0] + small[(k + 3) % len(small)][0]
            cuts = sorted(set(range(1, len(S), 1460)) | {len(small[k % len(small)][0]) + 2})
            for bs in (64, 4096) if k % 2 else (4096,):
                yield ("sockreader", {"S": S.hex(), "cuts": cuts, "bufsize": bs, "end": ("close", "timeout", "reset")[k % 3]})
        # datagram sockets (UDP): one recv() per datagram, messages straddling datagrams; bufsize at least the largest datagram
        for k in range(40 if not big else 400):
            S, _ = st.clean_stream(rng, pool, rng.randrange(3, 12), noise_p=0.2)
            if len(S) < 4:
                continue
            ncut = rng.choice((1, 2, 3, 6, 12, len(S) // 3))
            cuts = sorted(rng.sample(range(1, len(S)), min(len(S) - 1, ncut)))
            segmax = max(b - a for a, b in zip([0] + cuts, cuts + [len(S)]))
            yield ("sockreader", {"S": S.hex(), "cuts": cuts, "bufsize": rng.choice((segmax, segmax + 1, 4096, 65535)) if segmax <= 4096 else segmax, "end": ("timeout", "close")[k % 2],
                                  "dgram": 1, "filter": rng.choice((7, 7, 1, 2, 5))})
        # sockets with a positive timeout whose frames arrive in pieces, each in time, all of them together taking longer than the timeout
        longubx = [x[0] for x in st.special_frames(rng) if x[1] == "UBX" and 900 <= len(x[0]) <= 7000]
        for k in range(4 if not big else 16):
            S = small[k % len(small)][0] + longubx[k % len(longubx)] + small[(k + 2) % len(small)][0]
            step = max(1, len(S) // 8)
            yield ("sockreader", {"S": S.hex(), "cuts": list(range(step, len(S), step)), "bufsize": 4096, "end": "close", "delay": 0.02, "timeout": 0.05,
                                  "_k": "timed:%d" % k})
        # text that is fed one byte per recv(): more than a thousand recv() calls before the line ends
        for k, x in enumerate(y for y in st.special_frames(rng) if 1100 <= len(y[0]) <= 3000 and y[1] in ("NMEA", "NOISE")):
            S = small[k % len(small)][0] + x[0] + small[(k + 3) % len(small)][0]
            yield ("sockreader", {"S": S.hex(), "cuts": list(range(1, len(S))), "bufsize": (1, 2, 4096)[k % 3], "end": ("close", "timeout")[k % 2]})
        # status lines of NTRIP casters / HTTP servers in front of the data (text without frame-start bytes), every two-chunk split
        for hdr in (b"ICY 200 OK\r\n", b"ICY 200 OK\r\n\r\n", b"HTTP/1.1 200 OK\r\nNtrip-Version: Ntrip/2.0\r\n\r\n", b"SOURCETABLE 200 OK\r\n", b"HTTP/1.0 200 OK\r\n"):
            S = hdr + small[0][0] + small[1][0] + small[2][0]
            for cut in [[]] + [[c] for c in range(1, len(S), 3)]:
                yield ("sockreader", {"S": S.hex(), "cuts": cut, "bufsize": (4096, 7, 64)[cut[0] % 3 if cut else 0], "end": ("close", "timeout")[len(S) % 2]})
        for k in range(200 if not big else 2000):
            if k % 2:
                S, _ = st.clean_stream(rng, bigpool if k % 8 == 1 else pool, rng.randrange(3, 40), noise_p=0.3)
            else:
                S = st.garbage_stream(rng, pool, rng.randrange(3, 30))
            ncut = rng.choice((0, 1, 3, 10, 50, len(S) // 2))
            cuts = sorted(rng.sample(range(1, max(2, len(S))), min(max(len(S) - 1, 0), ncut))) if len(S) > 2 else []
            yield ("sockreader", {"S": S.hex(), "cuts": cuts, "bufsize": rng.choice((1, 2, 3, 5, 64, 4096)), "end": rng.choice(("close", "timeout", "reset")),
                                  "msgmode": rng.choice((0, 0, 1, 3)), "pbf": rng.choice((0, 1)), "validate": rng.choice((1, 1, 0)),
                                  "filter": rng.choice((7, 7, 7, 1, 2, 4, 3, 5, 6)), "parsing": rng.choice((1, 1, 1, 0)), "quit": rng.choice((0, 1)),
                                  "labelmsm": rng.choice((1, 2)), "how": k % 4})

    def gen_real():
        for k in range(24 if not big else 200):
            S, _ = st.clean_stream(rng, pool, rng.randrange(20, 200), noise_p=0.2)
            if k % 3 == 0:
                S = st.garbage_stream(rng, pool, rng.randrange(10, 60))
            chunks = [rng.choice((1, 2, 3, 7, 19, 64, 500, 4096)) for _ in range(4000)]
            yield ("sockreader", {"_k": "real:%d" % k, "S": S.hex(), "cuts": [], "real": 1, "chunks": chunks, "pause": rng.choice((0, 0, 0.0005)),
                                  "bufsize": rng.choice((1, 7, 64, 4096)) if len(S) < 3000 else rng.choice((64, 4096)),
                                  "end": "close" if k % 4 else "timeout"})

    run_batch(ctx, MODULE, CFG, gen_wrapper(), sock.OBSERVERS, sigfn, negfn, chunk=20000)
    run_batch(ctx, MODULE, CFG, gen_reader(), sock.OBSERVERS, sigfn, negfn, chunk=20000)
    run_batch(ctx, MODULE, CFG, gen_real(), sock.OBSERVERS, sigfn, negfn, chunk=20000, parallel=False, neg_every=5)
    ctx.extra["spec_drift_notes"] = ctx.drifts[:30]
    ctx.exhaustive = False
    ctx.assumptions += ["scripted sockets follow TCP recv semantics (at most bufsize bytes of what has arrived); the end of the transport "
                        "(close or timeout) comes after the last byte - runs where a real timeout fired early are not judged"]


def replay(ctx, body):
    replay_one(ctx, MODULE, CFG, sock.OBSERVERS, body, sigfn)
