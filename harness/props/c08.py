"""
C08 - no input makes parsing or reading fail with a foreign exception or hang.

Parse part: checksum-valid frames of every defined message (TLC layouts) cut / extended to EVERY payload length from 0 to
nominal+3, zero- and random-filled, under msgmode x parsebitfield x validate; arbitrary byte strings.  Each returned
message is inspected (str, repr, identity, length, payload, msgmode, serialize).  T_Frame!JudgeC08 judges.
Reader part: streams (alphabet-exhaustive, clean, garbage) under protfilter x quitonerror x parsing x handler;
T_Reader!MonC08 judges (ends; raises only under ERR_RAISE and only protocol errors); MC_Reader proves termination of the machine.
"""

from ..common import frame
from ..drivers import frames, walk
from . import readerprops, replay_one, run_batch

MODULE, CFG = "T_Frame", "T_Frame.cfg"


def sigfn(o, i, ev, v):
    if o == "runs":
        return readerprops.sigfn(o, i, ev, v)
    f = bytes.fromhex(i["f"])
    return {"observer": o, "cls": f[2] if len(f) > 3 else -1, "id": f[3] if len(f) > 3 else -1, "mode": i.get("mode"),
            "name": i.get("name", ""), "kind": ":".join(v.split(":")[:2]), "exc": v.split(":")[-1]}


def negfn(ev):
    if ev.get("kind") == "parse8" and ev["out"] == "msg":
        g = dict(ev)
        g["inspect"] = [["str", "TypeError"]] + ev["inspect"][1:]
        return g
    return None


def run(ctx):
    rng = ctx.rng
    ctx.rule = ("for every reachable (mode, table entry) x bitfield view: frames with payload of EVERY length 0..nominal+3 (nominal from the TLC "
                "layout with repeat count 1; thorough also count 2), zero- and random-filled; 8 msgmode/validate combinations sampled; arbitrary "
                "byte strings; plus reader streams under all configurations.  Non-trivial = the call returned normally or raised a UBX* error "
                "(every case exercises the property); distinct by input bytes and configuration")
    ctx.defs_file()
    lays = [l for l in walk.load_layouts(ctx, "MC_Walk_quick.cfg") if l["reachable"] and l["c"] in ((1, 2) if ctx.thorough else (1,))]
    cfgdb = ctx.defs["cfgdb"]

    def gen():
        for l in lays:
            base0 = walk.fill(l, "zero", rng, cfgdb)
            base1 = walk.fill(l, "rand", rng, cfgdb)
            nom = len(base0)
            # every cut inside every field up to 300 bytes, then a sample of cuts
            lens = list(range(0, min(nom, 300) + 4)) + ([nom - 1, nom, nom + 1, nom + 2, nom + 3] if nom > 300 else [])
            if nom > 300:
                lens += [rng.randrange(300, nom) for _ in range(12)]
            for n in sorted(set(x for x in lens if x >= 0)):
                for base in (base0, base1):
                    P = (base + rng.randbytes(4) if base is base1 else base + bytes(4))[:n]
                    fr = frame(l["cls"], l["id"], P)
                    yield ("c08", {"f": fr.hex(), "mode": l["m"], "pbf": 1 if l["pbf"] else 0, "validate": 1, "name": l["name"]})
            # other modes for the same bytes (wrong-mode parses), SETPOLL, VALNONE with a bad checksum
            fr = frame(l["cls"], l["id"], base1)
            for m in (0, 1, 2, 3):
                yield ("c08", {"f": fr.hex(), "mode": m, "pbf": rng.choice((0, 1)), "validate": rng.choice((0, 1)), "name": l["name"]})
            yield ("c08", {"f": (fr[:-1] + bytes((fr[-1] ^ 0xFF,))).hex(), "mode": l["m"], "pbf": 1, "validate": 0, "name": l["name"]})
        # messages whose str() decodes a referenced class/ID: ACK-ACK, ACK-NAK, CFG-MSG (poll, set3, set8) x class x id
        classes = sorted({c["key"][0] for c in ctx.defs["classes"]})
        pairs = [(c, i) for c in classes for i in range(256)] if not ctx.thorough else [(c, i) for c in range(256) for i in range(256)]
        if not ctx.thorough:
            pairs += [(rng.randrange(256), rng.randrange(256)) for _ in range(2000)]
        for c, i in pairs:
            for (fc, fi, m, tail) in ((5, 1, 0, b""), (5, 0, 0, b""), (6, 1, 2, b""), (6, 1, 1, b"\x01"), (6, 1, 0, bytes(6))):
                if not ctx.thorough and (fc, fi, m) != (5, 1, 0) and (c * 7 + i) % 3:
                    continue
                yield ("c08", {"f": frame(fc, fi, bytes((c, i)) + tail).hex(), "mode": m, "pbf": 1, "validate": 1, "name": "ACK/CFG-MSG"})
        # arbitrary byte strings, including frame-shaped garbage with VALNONE
        for _ in range(4000 if not ctx.thorough else 60000):
            n = rng.randrange(0, 48)
            yield ("c08", {"f": rng.randbytes(n).hex(), "mode": rng.choice((0, 1, 2, 3)), "pbf": rng.choice((0, 1)), "validate": rng.choice((0, 1))})
        for _ in range(4000 if not ctx.thorough else 60000):
            c, i = rng.choice(((1, 7), (6, 0x8B), (6, 0x8A), (0x13, 0x40), (0x13, 0x00), (2, 0x72), (0x0A, 0x31), (2, 0x73), (6, 0x17),
                               (rng.randrange(256), rng.randrange(256))))
            fr = b"\xb5\x62" + bytes((c, i)) + rng.randbytes(rng.randrange(0, 60))
            yield ("c08", {"f": fr.hex(), "mode": rng.choice((0, 1, 2, 3)), "pbf": rng.choice((0, 1)), "validate": 0})
        # very long inputs with inconsistent length fields
        for n in (65536, 70000, 100000):
            yield ("c08", {"f": (b"\xb5\x62\x01\x07\x05\x00" + bytes(n)).hex(), "mode": 0, "pbf": 1, "validate": 1})
            yield ("c08", {"f": (b"\xb5\x62\x01\x07\x05\x00" + bytes(n)).hex(), "mode": 0, "pbf": 1, "validate": 0})

    run_batch(ctx, MODULE, CFG, gen(), frames.OBSERVERS, sigfn, negfn, chunk=30000)
    # reader part
    readerprops.reader_check(ctx, "C08")
    ctx.exhaustive = False


def replay(ctx, body):
    if body["case"]["observer"] == "runs":
        readerprops.replay(ctx, body)
    else:
        replay_one(ctx, MODULE, CFG, frames.OBSERVERS, body, sigfn)
