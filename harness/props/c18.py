"""
C18 - scalar encodings and helper conversions are exact inverses over their domain.

T_Codec (TLC) judges every recorded helper call against spec/UbxHelpers.tla: integer codecs on limb sequences (every value of every
1- and 2-byte type plus a ring of out-of-range values; boundary and random limbs for every wider declared type), opaque round trips
(R4/R8/X/C/A), nomval, Fletcher-8, time-of-week conversions, get_bits, protocol() on all 65,536 two-byte prefixes, att2idx/att2name,
val2sphp.
"""

import itertools

from ..drivers import codec
from . import replay_one, run_batch

MODULE, CFG = "T_Codec", "T_Codec.cfg"


def sigfn(o, i, ev, v):
    s = {"observer": o, "kind": v}
    if o in ("int", "dec", "opaque", "nom"):
        s["t"] = i.get("t", "")
    return s


def negfn(ev):
    g = dict(ev)
    k = ev.get("kind")
    if k == "int" and ev["out"] == "ok" and ev["bytes"]:
        g["bytes"] = [(ev["bytes"][0] + 1) % 256] + ev["bytes"][1:]
        return g
    if k == "ck":
        g["ck"] = [(ev["ck"][0] + 1) % 256, ev["ck"][1]]
        return g
    if k == "time":
        g["itow"] = ev["itow"] + 1
        return g
    if k == "bits":
        g["out"] = ev["out"] + 1
        return g
    if k == "prot":
        g["out"] = (ev["out"] + 1) % 8
        return g
    if k == "att":
        g["outname"] = ev["outname"] + "x"
        return g
    if k == "sphp":
        g["hp"] = ev["hp"] + 1
        return g
    if k in ("esc", "hext", "dop", "lookup"):
        g["out"] = ev["out"] + "x"
        return g
    if k == "twos":
        g["out"] = ev["out"] + 1
        return g
    return None


def run(ctx):
    rng = ctx.rng
    ctx.rule = ("every value of U001 I001 E001 L001 U002 I002 (+E002 thorough) plus 300 values beyond each bound; boundary+random for every wider "
                "declared integer type; random bytes for R4/R8/X/C/A types; nomval of every type; checksums of all strings over {00,01,80,ff} "
                "up to length 5/6 plus long random ones; time-of-week conversions; get_bits for all 1-byte bitfield/mask pairs; protocol() on all "
                "65,536 prefixes; att2idx/att2name on generated names; val2sphp.  Non-trivial = every judged call; distinct by input")
    ctx.defs_file()
    types = ctx.defs["types"]
    big = ctx.thorough

    def gen_int():
        for t in types:
            k, w = t[0], (int(t[1:4]) if t != "CH" else 0)
            if k not in "UEIL":
                continue
            top = 1 << (8 * w)
            lo, hi = ((-(top // 2), top // 2 - 1) if k == "I" else (0, top - 1))
            if w == 1 or (w == 2 and (k in "UI" or big)):
                vals = itertools.chain(range(lo - 300, hi + 301))
            else:
                b = [lo - 2, lo - 1, lo, lo + 1, -1, 0, 1, hi - 1, hi, hi + 1, hi + 2, top, -top, 1 << 64, -(1 << 63) - 1, 255, 256, 65535, 65536]
                vals = b + [rng.randrange(lo, hi + 1) for _ in range(2000 if big else 150)] + [rng.randrange(lo * 4 - 4, hi * 4 + 4) for _ in range(200 if big else 40)]
            for v in vals:
                yield ("int", {"t": t, "v": str(v)})
            for _ in range(3000 if big else 200):
                yield ("dec", {"t": t, "b": rng.randbytes(w).hex()})
            for pat in (bytes(w), b"\xff" * w, b"\x80" + bytes(w - 1), bytes(w - 1) + b"\x80", b"\xff" * (w - 1) + b"\x7f"):
                yield ("dec", {"t": t, "b": pat.hex()})

    def gen_misc():
        for t in types:
            yield ("nom", {"t": t})
            if t != "CH" and t[0] in "RXCA":
                w = int(t[1:4])
                for _ in range(2000 if big else 150):
                    yield ("opaque", {"t": t, "b": rng.randbytes(w).hex()})
                yield ("opaque", {"t": t, "b": bytes(w).hex()})
                yield ("opaque", {"t": t, "b": (b"\xff" * w).hex()})
            if t != "CH" and t[0] == "A":
                for k in range(1, 12):
                    yield ("arr", {"t": t, "b": rng.randbytes(int(t[1:4])).hex(), "bad": k * 37})
            if t != "CH" and t[0] in "XA":
                w = int(t[1:4])
                for n in sorted({0, 1, w - 1, w + 1, w + 2, 2 * w, w + 255} - {w, -1}):
                    yield ("wide", {"t": t, "b": rng.randbytes(n).hex()})
        # text: ASCII strings of every shape through the variable-length text type
        for txt in ("", "A", "hello world", "C:\\temp\\x64\\out", "[\\x20-\\x7e]+", "\\x41\\x42", "100% {ok} 'q' \"d\"", "\\\\", "\\n\\t\\r", "\\u0041\\N{DASH}",
                    "b'\\x00'", "%s %d {0}", "tab\there", " lead and trail ", "~" * 300,
                    "ANTSTATUS=OK\r\n", "\r\n", "x\n", "x\r", "\r\nx", "a\r\n\r\n", " \t ", "trailing spaces   ", "\x00pad\x00\x00"):
            yield ("text", {"t": "CH", "b": txt.encode("ascii").hex()})
        for _ in range(400 if big else 60):
            n = rng.randrange(1, 40)
            yield ("text", {"t": "CH", "b": bytes(rng.choice(b"\\x0123456789abcdefABCDEF {}%'\"") for _ in range(n)).hex()})
        # checksums: all strings over a 4-byte alphabet up to a length, plus long random ones
        for n in range(0, 7 if big else 6):
            for tup in itertools.product((0, 1, 0x80, 0xFF), repeat=n):
                yield ("ck", {"d": bytes(tup).hex(), "flip": n})
        for _ in range(3000 if big else 300):
            yield ("ck", {"d": rng.randbytes(rng.randrange(1, 600)).hex(), "flip": rng.randrange(255)})
        yield ("ck", {"d": rng.randbytes(65539).hex()})
        # contents that look like framing themselves (sync characters, preambles of the other protocols, a whole frame as content)
        for pre in (b"\xb5\x62", b"\xb5", b"\x62\xb5", b"$G", b"\xd3\x00", b"\xb5\x62\xb5\x62", b"\xb5\x62\x06\x01\x00\x00\x07\x1b"):
            for n in (0, 1, 2, 4, 9):
                yield ("ck", {"d": (pre + rng.randbytes(n)).hex(), "flip": n})
        # time of week: every second of a week would be 604800 cases; every 7th (quick: 61st) second + random ms, all leap-offset wraps
        step = 7 if big else 61
        for s in itertools.chain(range(0, 604800, step), range(0, 40), range(604760, 604800)):
            yield ("time", {"days": rng.randrange(0, 24000) // 7 * 7 + s // 86400, "sod": s % 86400, "ms": rng.randrange(1000),
                            "itowin": s * 1000 + rng.randrange(1000)})
        for _ in range(60000 if big else 6000):
            yield ("time", {"days": rng.randrange(0, 24000), "sod": rng.randrange(86400), "ms": rng.randrange(1000), "itowin": rng.randrange(604800000)})
        # get_bits
        for bf in range(256):
            for mask in range(1, 256):
                if big or (bf * 7 + mask) % 5 == 0 or mask in (1, 2, 4, 8, 16, 32, 64, 128, 192, 255):
                    yield ("bits", {"bf": "%02x" % bf, "mask": mask})
        for _ in range(20000 if big else 2000):
            yield ("bits", {"bf": rng.randbytes(2).hex(), "mask": rng.randrange(1, 65536)})
        # grouped attribute names
        bases = set()

        def collect(es, depth):
            for e in es:
                if e["k"] == "g":
                    for s in e["sub"]:
                        if s["k"] in ("f", "b") and "_" not in s["n"]:
                            bases.add(s["n"])
                    collect(e["sub"], depth + 1)

        for m in ctx.defs["defs"].values():
            for es in m.values():
                collect(es, 0)
        for base in sorted(bases)[: (400 if big else 80)]:
            for i in (1, 2, 9, 10, 64, 99, 100, 255):
                for j in (0, 1, 12):
                    name = base + "_%02d" % i + ("_%02d" % j if j else "")
                    yield ("att", {"base": base, "i": i, "j": j, "name": name})
            # deeper nesting (one index per level, no depth limit in the naming scheme)
            for more in ((3,), (1, 1), (10, 2, 100)):
                name = base + "_%02d_%02d" % (2, 5) + "".join("_%02d" % x for x in more)
                yield ("att", {"base": base, "i": 2, "j": 5, "more": list(more), "name": name})
        for N in itertools.chain(range(-300, 301), (rng.randrange(-(1 << 30), 1 << 30) for _ in range(20000 if big else 3000))):
            yield ("sphp", {"N": N})
        # values with more decimals than the high-precision unit (tenths of a unit; residuals that round up to a whole unit: the carry zone)
        for M in itertools.chain(range(-2100, 2101), (s * (b * 1000 + r) for s in (1, -1) for b in (1, 7, 481234, 999999, 214748) for r in range(985, 1000)),
                                 (rng.randrange(-(1 << 30), 1 << 30) for _ in range(20000 if big else 3000))):
            if M % 10 != 5 and abs(M) < (1 << 30):  # (TLC integers are 32 bit)
                yield ("sphp2", {"M": M})


    def gen_ext():
        """helpers beyond the listed properties (judged as notes)"""
        for n in (1, 2, 7, 8, 12, 16, 24):
            for val in itertools.chain(range(-40, 41), (-(1 << n), (1 << n) - 1, 1 << n, -(1 << n) - 1, (1 << (n - 1)), -(1 << (n - 1))),
                                       (rng.randrange(-(1 << 29), 1 << 29) for _ in range(400 if big else 60))):
                yield ("twos", {"n": n, "val": val})
        for n in list(range(0, 20)) + [64, 255]:
            yield ("esc", {"b": rng.randbytes(n).hex()})
        yield ("esc", {"b": bytes(range(256)).hex()})
        for n in list(range(0, 40)) + [63, 64, 65, 255, 256, 1000, 2047]:
            for cols in (1, 2, 3, 8, 16):
                if n > 300 and cols < 8:
                    continue
                yield ("hext", {"raw": (rng.randbytes(n) if n % 3 else bytes((32 + (k * 7) % 95) for k in range(n))).hex(), "cols": cols})
        yield ("hext", {"raw": bytes(range(256)).hex(), "cols": 8})
        yield ("hext", {"raw": b"it's \"q\" \\ \t\r\n".hex(), "cols": 4})
        for h in itertools.chain(range(0, 2300), (5000, 9999, 100000)):
            yield ("dop", {"h": h})
        for x in range(-3, 300):
            yield ("lookup", {"which": "gnss", "x": x})
            yield ("lookup", {"which": "fix", "x": x})
        for _ in range(400 if big else 80):
            ks = ["k%d" % k for k in range(rng.randrange(0, 8))]
            rng.shuffle(ks)
            yield ("kfv", {"pairs": [[k, rng.randrange(4)] for k in ks], "v": rng.randrange(5)})
        words = ["ROM CORE 3.01 (107888)", "EXT CORE 1.00 (61b2dd)", "ROM BASE 2.01", "FWVER=HPG 1.32", "FWVER=SPG 4.04", "PROTVER=27.31", "PROTVER 14.00",
                 "MOD=ZED-F9P", "MOD=NEO-M8N", "GPS;GLO;GAL;BDS", "SBAS;IMES;QZSS", "SBAS;QZSS", "GPS;NAVIC", "ROM CORE EXT CORE", "FWVER=FWVER=X",
                 "PROTVER=PROTVER 1", "", "00080000", "000A0000", "MOD=MOD=", "GLONASS", "BDSGAL"]
        for _ in range(1500 if big else 250):
            yield ("mon", {"sw": rng.choice(words), "hw": rng.choice(words)[:10], "exts": [rng.choice(words) for _ in range(rng.randrange(0, 10))]})
        names = [m["name"] for m in ctx.defs["msgids"]]
        cnames = [c["name"] for c in ctx.defs["classes"]]
        for nm in names:
            yield ("msgstr", {"cls": nm.split("-")[0], "id": nm})
        for c in cnames:
            yield ("msgstr", {"cls": c, "id": rng.choice(names)})
            yield ("msgstr", {"cls": c, "id": c + "-NOSUCH"})
        yield ("msgstr", {"cls": "NOSUCH", "id": names[0]})
        for c in range(0, 256, 5 if not big else 1):
            for i in (0, 1, 127, 128, 255, (c * 7) % 256):
                yield ("msgcls", {"c": c, "i": i})
        for t in types:
            yield ("attsiz", {"t": t})

    run_batch(ctx, MODULE, CFG, gen_int(), codec.OBSERVERS, sigfn, negfn, chunk=60000)
    run_batch(ctx, MODULE, CFG, gen_misc(), codec.OBSERVERS, sigfn, negfn, chunk=60000)
    run_batch(ctx, MODULE, CFG, gen_ext(), codec.OBSERVERS, sigfn, negfn, chunk=60000, neg_every=37)
    # the same laws in interpreters started with -O / -OO (assert statements and `if __debug__:` blocks compiled out): a sample of every kind
    from . import run_opt

    rng2 = __import__("random").Random(ctx.seed if hasattr(ctx, "seed") else 0)
    for key in ("int", "wide", "opaque", "nom", "dec", "text", "att", "arr"):
        pool = [i for o, i in itertools.chain(gen_int(), gen_misc()) if o == key]
        rng2.shuffle(pool)
        run_opt(ctx, MODULE, CFG, "codec:" + key, pool[: (4000 if big else 600)], sigfn)
    # protocol(): all 65,536 two-byte prefixes (exhaustive)
    events = []
    common_setup()
    for b1 in range(256):
        events += codec.obs_prot({"b1": b1})
    verdicts = ctx.validate(MODULE, CFG, events, label="prot")
    for ev, v in zip(events, verdicts):
        ctx.evaluations += 1
        if v == "ok":
            ctx.nontrivial += 1
        elif v != "triv":
            ctx.violation(v, {"observer": "prot", "kind": v, "b1": ev["b1"], "b2": ev["b2"]}, {"observer": "prot", "input": {"b1": ev["b1"], "b2": ev["b2"]}})
    neg = dict(events[0xB5 * 256 + 0x62])
    neg["out"] = 0
    nv = ctx.validate(MODULE, CFG, [neg], label="protneg")
    ctx.negative_controls(nv, [dict(neg, neg=1)])
    ctx.exhaustive = False
    ctx.extra["protocol_prefixes_exhaustive"] = 65536


def common_setup():
    pass


def obs_prot_single(i):
    return [e for e in codec.obs_prot({"b1": i["b1"]}) if e["b2"] == i["b2"]][0]


def replay(ctx, body):
    obs = dict(codec.OBSERVERS)
    obs["prot"] = obs_prot_single
    replay_one(ctx, MODULE, CFG, obs, body, sigfn)
