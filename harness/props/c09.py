"""C09 - see readerprops.py (shared reader machinery) and DESIGN.md section 4."""

from . import readerprops

RULES = {
    "C06": "clean streams (recipe = frames from pools of recorded/synthesised UBX, NMEA, RTCM3 frames incl. zero-length and bad-CRC ones, plus preamble-free noise); non-trivial = at least one accepted frame expected; distinct by (stream, configuration)",
    "C07": "every stream over {b5,62,24,47,d3,00,01,0a} up to the stated length, plus random mixtures of frames, mutated frames, preamble fragments and noise, each under 4 configurations with errors not raised; non-trivial = the run ended normally (so the monitor had to locate every item and check nothing is unread)",
    "C09": "streams (alphabet-exhaustive, clean, garbage) x EVERY cut position; non-trivial = all cut runs judged against the uncut run",
    "C11": "streams x all 8 masks x parsing in {True,False}; non-trivial = a run with a proper mask or parsing=False over an all-accepted stream was compared",
    "C12": "streams x {IGNORE, LOG+handler, RAISE, LOG without handler}; non-trivial = runs ended normally and were compared",
}


def run(ctx):
    ctx.rule = RULES["C09"]
    readerprops.reader_check(ctx, "C09")


def replay(ctx, body):
    readerprops.replay(ctx, body)
