"""
C05 - checksum validation lets nothing malformed through.

1. MC_Frame (design): the fault machine over a small frame library, depth <= MaxDepth; invariants
   Accept => WellFormed, single substitution detected.  Every reachable byte string is dumped.
2. MC_Frame (pinned switches): demonstration that TLC finds the zero-length shortcut counterexample
   (vacuity control of the model-checking step).
3. spec -> code: every dumped byte string is replayed into UBXReader.parse(VALCKSUM).
4. code -> spec: real-size frames x corruptions, arbitrary strings, VALNONE checksum corruption;
   all events judged by T_Frame.
"""

import json

from ..common import frame
from ..drivers import frames
from . import replay_one, run_batch

MODULE, CFG = "T_Frame", "T_Frame.cfg"


def sigfn(o, i, ev, v):
    f = ev.get("f", [])
    return {"observer": o, "len": len(f), "out": ev.get("out", ev.get("outg", "")),
            "lenfield_zero": len(f) >= 6 and f[4] == 0 and f[5] == 0}


def negfn(ev):
    # a "msg" outcome attached to a frame whose checksum byte is flipped must be rejected by the spec
    if ev.get("kind") == "parse" and ev.get("out") == "msg" and len(ev["f"]) >= 8:
        g = dict(ev)
        g["f"] = ev["f"][:-1] + [ev["f"][-1] ^ 0x55]
        return g
    return None


def real_frames(rng):
    """frames of realistic sizes; payload bytes random (C05 does not care about definitions)"""
    specs = [(0x05, 0x01, 2), (0x06, 0x00, 0), (0x06, 0x01, 3), (0x01, 0x02, 28), (0x01, 0x07, 92),
             (0x0A, 0x04, 40), (0x01, 0x35, 8 + 12 * 3), (0x04, 0x02, 17), (0x77, 0x01, 5), (0x06, 0x8B, 12),
             (0x02, 0x15, 16 + 32 * 2), (0x13, 0x80, 12), (0x01, 0x03, 16), (0x0D, 0x01, 16), (0x21, 0x03, 0)]
    out = []
    for c, i, n in specs:
        out.append(frame(c, i, bytes(rng.randrange(256) for _ in range(n))))
    # frames whose payload holds (ends with / starts with / is) a complete frame: every truncation, deletion ... of these leaves
    # input that contains a well-formed frame without being one
    inner = frame(0x05, 0x01, b"\x06\x01")
    out.append(frame(0x04, 0x04, bytes(rng.randrange(256) for _ in range(5)) + inner))
    out.append(frame(0x77, 0x02, inner + b"\x00\x00\x00"))
    out.append(frame(0x05, 0x01, inner))
    return out


def corruptions(f, rng, thorough):
    n = len(f)
    short = n <= 24
    for p in range(n):
        vals = range(256) if (short or thorough) else sorted({0, 0xFF, 0xB5, 0x62, f[p] ^ 1, f[p] ^ 0x80, (f[p] + 1) & 255, rng.randrange(256)})
        for v in vals:
            if v != f[p]:
                yield f[:p] + bytes((v,)) + f[p + 1:]
    for p in range(n + 1):
        for v in (0, 0xFF, 0xB5, 0x62, rng.randrange(256)):
            yield f[:p] + bytes((v,)) + f[p:]
    for p in range(n):
        yield f[:p] + f[p + 1:]
    for k in range(n):
        yield f[:k]
    for _ in range(40 if not thorough else 400):
        p = rng.randrange(n)
        ln = rng.randrange(2, 9)
        yield f[:p] + bytes(rng.randrange(256) for _ in range(ln)) + f[p + ln:]
    # a cut-off frame followed by a whole other frame; whole frames before / after; sync characters appended
    other = frame(0x05, 0x00, b"\x06\x8a")
    for k in sorted({1, 2, 5, 6, 7, n // 2, n - 3, n - 2, n - 1} & set(range(1, n))):
        yield f[:k] + other
    yield other + f
    yield f + other
    yield f + b"\xb5\x62"
    yield f + b"\r\n"
    # appended bytes, doubled frame, swapped checksum
    yield f + b"\x00"
    yield f + f
    yield f[:-2] + f[-1:] + f[-2:-1]


def lenient(cases):
    """every third VALCKSUM call is preceded, in the same interpreter, by a lenient (VALNONE) parse of the same bytes:
    what VALCKSUM lets through must not depend on what was parsed before"""
    for k, (o, c) in enumerate(cases):
        if o == "c05_parse":
            # validation must not depend on the other parse options: both bitfield settings, every msgmode
            c = dict(c, pbf=(k // 3) % 2)
            if "mode" not in c:
                c["mode"] = (0, 0, 1, 0, 2, 3)[(k // 7) % 6]
            if k % 3 == 0:
                c["lenient_first"] = 1
        yield (o, c)


def run(ctx):
    rng = ctx.rng
    ctx.rule = ("every byte string reachable by <=2 (quick) / <=2 exhaustive + sampled 3 (thorough) faults from a 6-frame "
                "library over the alphabet {00,01,02,62,b5,ff} (TLC-enumerated, replayed into UBXReader.parse(VALCKSUM)); "
                "15 realistic frames x every position x replacement values, insertions, deletions, truncations, bursts; "
                "random strings; VALNONE checksum corruptions.  Non-trivial = the input is malformed (rejection exercised) "
                "or well-formed and accepted; distinct by input bytes.")
    # 1. design-level model + dump
    dumped = {}

    def sink(s):
        if s.startswith("{"):
            d = json.loads(s)
            dumped[bytes(d["f"])] = d["wf"]

    from .. import tlc

    r = tlc.run("MC_Frame", "MC_Frame_design.cfg", ctx.work, print_sink=sink, coverage=False)
    if r.violated:
        from ..common import MachineryError
        raise MachineryError("design-level frame model violates %s" % r.violated)
    ctx.states += r.distinct
    ctx.transitions += r.generated
    d = r.as_dict(); d["module"] = "MC_Frame"; d["cfg"] = "MC_Frame_design.cfg"; d["dumped_distinct_strings"] = len(dumped)
    ctx.tlc_runs.append(d)
    # 2. demonstration: the pinned shortcut is found by TLC
    ctx.mc("MC_Frame", "MC_Frame_pinned.cfg", expect_violation="AcceptOnlyWellFormed")
    # 3. replay of the dump
    cases = [("c05_parse", {"f": f.hex()}) for f in dumped]
    run_batch(ctx, MODULE, CFG, lenient(cases), frames.OBSERVERS, sigfn, negfn)
    ctx.extra["spec_to_code_replayed"] = len(cases)
    # 4. real-size corruptions
    rf = real_frames(rng)
    if not ctx.thorough:
        pass

    def gen():
        for f in rf:
            yield ("c05_parse", {"f": f.hex()})
            for g in corruptions(f, rng, ctx.thorough):
                yield ("c05_parse", {"f": g.hex()})
        # arbitrary strings and frame-shaped strings with inconsistent length fields
        for _ in range(3000 if not ctx.thorough else 60000):
            n = rng.randrange(0, 40)
            yield ("c05_parse", {"f": bytes(rng.randrange(256) for _ in range(n)).hex()})
        for _ in range(3000 if not ctx.thorough else 60000):
            n = rng.randrange(0, 30)
            pl = bytes(rng.randrange(256) for _ in range(n))
            good = frame(rng.choice((1, 5, 6, 0, 0x13)), rng.randrange(256), pl)
            ln = rng.choice((0, 1, n + 1, max(n - 1, 0), 0xFFFF, n))
            body = good[2:4] + ln.to_bytes(2, "little") + pl
            from ..common import fletcher
            yield ("c05_parse", {"f": (b"\xb5\x62" + body + fletcher(body)).hex()})
        # short strings exhaustively over a tiny alphabet (lengths 0..5)
        import itertools
        for n in range(0, 6 if not ctx.thorough else 7):
            for t in itertools.product((0, 0x62, 0xB5, 6), repeat=n):
                yield ("c05_parse", {"f": bytes(t).hex()})
        # VALNONE: checksum bytes corrupted -> same attributes, in every msgmode (input frames for SET / POLL / SETPOLL)
        inputs = [frame(0x06, 0x01, bytes((1, 7, 0, 1, 0, 0, 0, 0))), frame(0x06, 0x08, bytes((0xE8, 3, 1, 0, 1, 0))), frame(0x0A, 0x04, b""),
                  frame(0x06, 0x00, b"\x01"), frame(0x06, 0x01, bytes((1, 7))), frame(0x06, 0x8A, bytes((0, 1, 0, 0, 1, 0, 0x52, 0x40, 0x80, 0x25, 0, 0)))]
        for f in inputs:
            for mode in (1, 2, 3, 0):
                for _ in range(12 if not ctx.thorough else 200):
                    ck = bytes((rng.randrange(256), rng.randrange(256)))
                    if ck != f[-2:]:
                        yield ("c05_valnone", {"f": f.hex(), "g": (f[:-2] + ck).hex(), "pbf": rng.choice((0, 1)), "mode": mode})
        for f in rf:
            for _ in range(64 if not ctx.thorough else 2000):
                ck = bytes((rng.randrange(256), rng.randrange(256)))
                if ck != f[-2:]:
                    for pbf in (0, 1):
                        yield ("c05_valnone", {"f": f.hex(), "g": (f[:-2] + ck).hex(), "pbf": pbf})

    run_batch(ctx, MODULE, CFG, lenient(gen()), frames.OBSERVERS, sigfn, negfn)

    # long frames (lengths around the byte / block boundaries and up to the 16-bit limit): checksum bytes and sampled positions
    def gen_long():
        for n in (254, 255, 256, 257, 1000, 5798, 5799, 6000, 20000, 65535) if ctx.thorough else (255, 256, 6000, 65535):
            f = frame(rng.choice((0x02, 0x0A, 0x77)), rng.randrange(256), rng.randbytes(n))
            yield ("c05_parse", {"f": f.hex()})
            for k in (1, 2):
                vals = range(256) if n < 7000 or ctx.thorough else sorted({0, 255, f[-k] ^ 1, f[-k] ^ 0x80, (f[-k] + 10) & 255, (f[-k] - 10) & 255})
                for v in vals:
                    if v != f[-k]:
                        g = bytearray(f)
                        g[-k] = v
                        yield ("c05_parse", {"f": bytes(g).hex()})
            for _ in range(12):
                p = rng.randrange(len(f))
                g = bytearray(f)
                g[p] ^= 1 << rng.randrange(8)
                yield ("c05_parse", {"f": bytes(g).hex()})
            yield ("c05_parse", {"f": f[:-1].hex()})
            yield ("c05_parse", {"f": (f + b"\x00").hex()})
        # insertions whose size is a multiple of 65536 (a 16-bit length comparison must not wrap): before the checksum, after it, after the header
        for g in (frame(0x01, 0x07, rng.randbytes(92)), frame(0x06, 0x00, b""), frame(0x05, 0x01, b"\x06\x01")):
            for extra in (65536, 131072) if ctx.thorough else (65536,):
                for at in (len(g) - 2, len(g), 6):
                    yield ("c05_parse", {"f": (g[:at] + bytes(extra) + g[at:]).hex()})
                yield ("c05_parse", {"f": (g[:len(g) - 2] + rng.randbytes(extra) + g[len(g) - 2:]).hex()})

    run_batch(ctx, MODULE, CFG, lenient(gen_long()), frames.OBSERVERS, sigfn, negfn, chunk=400)
    ctx.exhaustive = False
    ctx.assumptions += ["third-party struct/int codecs of CPython are correct",
                        "TLC evaluates Fletcher8/WellFormed as written in spec/UbxFrame.tla (independent of calc_checksum)"]


def replay(ctx, body):
    replay_one(ctx, MODULE, CFG, frames.OBSERVERS, body, sigfn)
