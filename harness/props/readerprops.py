"""
Shared implementation of the reader properties C06 C07 C09 C11 C12 (and the reader part of C08).
"""

from ..drivers import streams as st
from . import replay_one, run_batch

MODULE, CFG = "T_Reader", "T_Reader.cfg"


def sigfn(o, i, ev, v):
    S = bytes.fromhex(i["S"])
    sig = {"observer": o, "len": len(S), "has_d30000": b"\xd3\x00\x00" in S}
    return sig


def negfn_for(prop):
    def neg(ev):
        import copy

        e = copy.deepcopy(ev)
        runs = e["runs"]
        if prop == "C07":
            r = runs[0]
            if r["end"] == "eof" and r["quit"] != 2:
                r["left"] = 1  # pretend a byte was left unread
                return e
        if prop == "C06":
            r = runs[0]
            if r["items"]:
                r["items"] = r["items"][:-1]
                r["endpos"] = r["endpos"][:-1]
                r["pt"] = r["pt"][:-1]
                r["pd"] = r["pd"][:-1]
                return e
        if prop == "C09" and len(runs) > 1:
            for c in runs[1:]:
                if c["items"]:
                    c["items"] = [c["items"][0] + 1000] + c["items"][1:]
                    return e
        if prop == "C11" and len(runs) > 1:
            for c in runs[1:]:
                if c["parsing"] == 1 and c["filter"] != 7 and c["items"]:
                    c["items"] = c["items"] + [c["items"][-1]]
                    return e
        if prop == "C12":
            if runs[0]["items"]:
                runs[0]["items"] = runs[0]["items"][1:]
                return e
        if prop == "C08":
            runs[0]["end"] = "foreign:KeyError"
            return e
        return None

    return neg


def mc_for(ctx, prop):
    big = ctx.thorough
    lem = "MC_ReaderLemmas_all4.cfg" if big else "MC_ReaderLemmas_all.cfg"
    if prop == "C07":
        ctx.mc("MC_Reader", "MC_Reader_thorough.cfg" if big else "MC_Reader_quick.cfg", timeout=1500)
        ctx.mc("MC_Reader", "MC_Reader_pinned.cfg", expect_violation="InvNothingLeft")
        # documented behaviour of the code (not a C07 violation: still an in-order slice): polling a socket stream that was cut inside
        # a frame can deliver the frame nested in the unfinished frame's payload - TLC exhibits it on the machine
        ctx.mc("MC_ReaderLemmas", "MC_ReaderLemmas_pollcut.cfg", expect_violation="LemmaPollCutSock")
    elif prop == "C08":
        ctx.mc("MC_Reader", "MC_Reader_quick.cfg", timeout=1500)
    elif prop == "C11":
        ctx.mc("MC_Reader", "MC_Reader_masks.cfg", timeout=1500)
    if prop in ("C06", "C09", "C11", "C12", "C07"):
        ctx.mc("MC_ReaderLemmas", lem, timeout=1500)
    if prop == "C06":
        ctx.mc("MC_ReaderLemmas", "MC_ReaderLemmas_pinned.cfg", expect_violation=("LemmaClean", "LemmaEnds"))


def plans(prop, rng, S, clean):
    n = len(S)
    if prop == "C06":
        return [{"filter": 7, "quit": rng.choice((0, 1)), "parsing": 1, "reads": 1}, {"filter": 7, "quit": 2, "parsing": 1, "resume": 1}]
    if prop == "C07":
        p = [{"filter": 7, "quit": 1, "parsing": 1, "reads": 1},
             {"filter": rng.choice((0, 1, 2, 3, 4, 5, 6)), "quit": rng.choice((0, 1)), "parsing": rng.choice((0, 1)), "reads": 1}]
        if clean or n > 8:
            p += [{"filter": 7, "quit": 0, "parsing": 1}, {"filter": 7, "quit": 1, "parsing": 0, "handler": 0}]
        p.append({"filter": 7, "quit": 2, "parsing": 1, "resume": 1})
        return p
    if prop == "C08":
        return [{"filter": rng.choice(range(8)), "quit": q, "parsing": rng.choice((0, 1)), "handler": rng.choice((0, 1))}
                for q in (0, 1, 2)]
    if prop == "C09":
        q = rng.choice((0, 1))
        h = rng.choice((0, 1))  # ERR_LOG with and without an error handler
        f = rng.choice((7, 7, 7, 1, 2, 3, 4, 5, 6))  # the claim holds under every protocol mask (the same for the uncut and the cut runs)
        return [{"filter": f, "quit": q, "parsing": 1, "handler": h}] + [{"filter": f, "quit": q, "parsing": 1, "cut": k, "handler": h} for k in range(n + 1)]
    if prop == "C11":
        return [{"filter": 7, "quit": 1, "parsing": 1}] + [{"filter": f, "quit": 1, "parsing": p} for f in range(8) for p in (1, 0)] + \
            [{"filter": f, "quit": 2, "parsing": 1, "resume": 1} for f in (7, 1, 2, 4, rng.choice((3, 5, 6)))]  # errors raised, caught, same iterator resumed
    if prop == "C12":
        return [{"filter": 7, "quit": 0, "parsing": 1, "handler": 1}, {"filter": 7, "quit": 1, "parsing": 1, "handler": 1},
                {"filter": 7, "quit": 2, "parsing": 1, "handler": 1}, {"filter": 7, "quit": 1, "parsing": 1, "handler": 0}]
    raise ValueError(prop)


def _tail_frame(c, i, pl):
    from ..common import frame

    return frame(c, i, pl)


def reader_check(ctx, prop):
    rng = ctx.rng
    mc_for(ctx, prop)
    pool = st.frame_pool(rng)
    big = ctx.thorough
    # input (SET / POLL) frames built from the TLC layouts: streams read with msgmode SET / POLL / SETPOLL use them
    inpool = []
    if prop in ("C06", "C11", "C12"):
        from ..common import frame as _frame
        from ..drivers import walk as _walk

        ctx.defs_file()
        for l in _walk.load_layouts(ctx, "MC_Walk_quick.cfg"):
            if l["reachable"] and l["pbf"] and l["m"] in (1, 2) and l["c"] in (0, 1) and (l["len"] is None or l["len"] < 200):
                inpool.append((_frame(l["cls"], l["id"], _walk.fill(l, "rand", rng, ctx.defs["cfgdb"])), "UBX"))
        inpool = inpool + [x for x in pool if x[1] != "UBX"]
    # sizes per property (quick, thorough)
    alpha_len = {"C07": (5, 6), "C08": (4, 5), "C09": (4, 5), "C11": (4, 5), "C12": (4, 5), "C06": (0, 0)}[prop][1 if big else 0]
    n_clean = {"C06": (500, 4000), "C07": (20, 200), "C08": (30, 300), "C09": (25, 250), "C11": (40, 400), "C12": (60, 600)}[prop][1 if big else 0]
    n_garb = {"C06": (0, 0), "C07": (150, 1500), "C08": (200, 2000), "C09": (25, 250), "C11": (60, 600), "C12": (80, 800)}[prop][1 if big else 0]

    def cfgmix():
        return {"msgmode": rng.choice((0, 0, 0, 1, 2, 3)), "validate": rng.choice((1, 1, 1, 0, 3, 2)), "pbf": rng.choice((1, 0)), "labelmsm": rng.choice((1, 1, 2)),
                "streamkind": rng.choice(("min", "bytesio", "pipe", "sock") if prop != "C06" else ("min", "bytesio", "pipe"))}

    def gen_small():
        for S in st.alphabet_streams(alpha_len):
            yield ("runs", {"prop": prop, "S": S.hex(), "recipe": [], "plan": plans(prop, rng, S, False), "conf": 1 if prop == "C07" else 0,
                            "streamkind": ("min", "bytesio", "pipe")[(len(S) + (S[0] if S else 0)) % 3]})

    def gen_nested():
        """frames within frames, alone and between ordinary frames"""
        nest = st.nested_frames(rng)
        simple = [x for x in pool if len(x[0]) < 60]
        for f, p in nest:
            for shape in range(3 if not big else 6):
                parts = ([rng.choice(simple)] if shape % 2 else []) + [(f, p)] + ([rng.choice(simple)] if shape > 0 else [])
                pos = 0
                rec = []
                for fr, pp in parts:
                    rec.append({"a": pos, "b": pos + len(fr), "p": pp, "ok": -1, "dd": "", "fam": ""})
                    pos += len(fr)
                S = b"".join(fr for fr, _ in parts)
                for kind in ("min", "bytesio", "pipe"):
                    yield ("runs", {"prop": prop, "S": S.hex(), "recipe": rec, "plan": plans(prop, rng, S, True), "conf": 0, "streamkind": kind})

    def gen_big():
        for k in range(n_clean):
            nfr = rng.randrange(2, 12) if prop == "C09" else rng.randrange(5, 60)
            mix = cfgmix()
            usepool = inpool if (inpool and mix["msgmode"] != 0) else pool
            S, recipe = st.clean_stream(rng, usepool, nfr, noise_p=rng.choice((0.0, 0.3, 0.6)))
            c = {"prop": prop, "S": S.hex(), "recipe": recipe, "plan": plans(prop, rng, S, True), "conf": 1 if prop in ("C06", "C07") and len(S) < 20000 else 0}
            c.update(mix)
            yield ("runs", c)
            if prop == "C06" and k % 4 == 0:
                yield ("runs", dict(c, streamkind="sock", conf=0))
            if prop in ("C06", "C07", "C12") and k % 3 == 1 and len(recipe) > 2:
                # a growing stream: the data pauses (the read there returns nothing once) and continues; the application iterates the
                # same reader again.  C06 / C12: pauses on frame boundaries only; C07 (any stream whatsoever): anywhere
                bounds = [x["b"] for x in recipe[:-1]]
                ps = sorted(set(rng.sample(bounds, min(len(bounds), rng.randrange(1, 4))))) if prop != "C07" else \
                    sorted(set(rng.randrange(1, len(S)) for _ in range(rng.randrange(1, 4))))
                yield ("runs", dict(c, streamkind="min", conf=0, pauses=ps))
            if prop in ("C12", "C08") and k % 3 == 0 and len(S) > 8:
                # the same stream delivered in bursts (a serial port with timeout: read(n) may return fewer bytes before the end)
                b = dict(c)
                b["recipe"] = []
                b["conf"] = 0
                b["bursts"] = sorted(rng.sample(range(1, len(S)), min(len(S) - 1, rng.randrange(1, 6))))
                yield ("runs", b)
        for k in range(n_garb):
            S = st.garbage_stream(rng, pool, rng.randrange(2, 8) if prop == "C09" else rng.randrange(3, 40))
            c = {"prop": prop, "S": S.hex(), "recipe": [], "plan": plans(prop, rng, S, False), "conf": 1 if prop == "C07" and len(S) < 20000 else 0}
            c.update(cfgmix())
            yield ("runs", c)
            if prop in ("C12", "C08") and k % 3 == 0 and len(S) > 8:
                b = dict(c)
                b["bursts"] = sorted(rng.sample(range(1, len(S)), min(len(S) - 1, rng.randrange(1, 6))))
                yield ("runs", b)

    def gen_library():
        """C06 S->C: every sequence of <=3 (thorough <=4) items of a 13-item concrete library (as MC_ReaderLemmas)"""
        import itertools
        from ..common import frame

        g = frame(0x05, 0x01, b"\x06\x01")
        lib = [(frame(0x06, 0x00, b""), "UBX"), (g, "UBX"), (g[:-1] + bytes((g[-1] ^ 1,)), "UBX"), (frame(0x77, 0x12, b"\x01\x02\x03"), "UBX"),
               (st.nmea_line("GPGLL,5327.04319,N,00214.41396,W,223232.00,A,A"), "NMEA"), (b"$GNGLL,5327.04319,N*00\r\n", "NMEA"),
               (st.nmea_line("GPZZZ,1,2,3"), "NMEA"), (st.rtcm_frame(bytes(5)), "RTCM"), (st.rtcm_frame(bytes(5), good=False), "RTCM"),
               (st.rtcm_frame(b""), "RTCM"), (st.rtcm_frame(b"\x3e"), "RTCM"), (b"\x00", "NOISE"), (b"\x41\x01\x02", "NOISE")]
        for n in range(1, (4 if big else 3) + 1):
            for seq in itertools.product(range(len(lib)), repeat=n):
                pos = 0
                rec = []
                parts = []
                for k in seq:
                    f, p = lib[k]
                    rec.append({"a": pos, "b": pos + len(f), "p": p, "ok": 0 if p == "NOISE" else -1, "dd": "", "fam": ""})
                    parts.append(f)
                    pos += len(f)
                S = b"".join(parts)
                yield ("runs", {"prop": prop, "S": S.hex(), "recipe": rec, "plan": [{"filter": 7, "quit": 1, "parsing": 1, "reads": 1}], "conf": 1})

    def gen_tour():
        """every synthesised boundary frame of the pool (bare-LF sentences, zero-length / bad-CRC / truncated-type RTCM3, frames holding
        preambles, lengths at byte boundaries ...) is placed deterministically into a stream of THIS check, between ordinary frames:
        what a check sees must not depend on the luck of the random mixtures"""
        sp = [x for x in st.special_frames(rng) if len(x[0]) <= (300 if prop in ("C09", "C11") else 70000)]
        simple = [x for x in pool if len(x[0]) < 60 and x not in sp][:40]
        for k in range(0, len(sp), 3):
            parts = []
            for j, x in enumerate(sp[k:k + 3]):
                parts += [simple[(k + j) % len(simple)], x]
            parts.append(simple[(k + 7) % len(simple)])
            pos = 0
            rec = []
            for fr, pp in parts:
                rec.append({"a": pos, "b": pos + len(fr), "p": pp, "ok": -1, "dd": "", "fam": ""})
                pos += len(fr)
            S = b"".join(fr for fr, _ in parts)
            c = {"prop": prop, "S": S.hex(), "recipe": rec, "plan": plans(prop, rng, S, True), "conf": 1 if prop in ("C06", "C07") and len(S) < 20000 else 0,
                 "streamkind": (("min", "bytesio", "pipe") if prop == "C06" else ("min", "sock", "bytesio", "pipe", "sock"))[(k // 3) % (3 if prop == "C06" else 5)]}
            yield ("runs", c)
            if prop == "C06":
                # the same stream through a socket (the reader wraps it): clean streams must come out the same way
                yield ("runs", dict(c, streamkind="sock", conf=0))
            if prop in ("C06", "C11", "C12"):
                yield ("runs", dict(c, validate=0, msgmode=(k // 3) % 4))

    def gen_repeat():
        """relations BETWEEN consecutive frames: the same frame two and three times in a row, a different frame of the same protocol and
        length right behind it (same header, other content), frames in ascending / descending length order, a frame whose payload starts
        with the previous frame's header"""
        from ..common import frame as _frame

        simple = [x for x in pool if len(x[0]) < 120][:30]
        if len(simple) < 8:
            return
        seqs = []
        for k, (f, pp) in enumerate(simple[:14]):
            if pp == "UBX" and len(f) > 8:
                twin = _frame(f[2], f[3], bytes(b ^ 1 for b in f[6:-2]))
                heir = _frame(f[2], (f[3] + 1) % 256, f[:6] + bytes(len(f) - 14 if len(f) > 14 else 0))
            elif pp == "RTCM" and len(f) > 6:
                twin = st.rtcm_frame(f[3:-4] + bytes((f[-4] ^ 1,)))
                heir = st.rtcm_frame(f[3:-3])
            else:
                twin = heir = simple[(k + 3) % len(simple)][0]
            o1, o2 = simple[(k + 1) % len(simple)], simple[(k + 5) % len(simple)]
            seqs.append([(f, pp), (f, pp), (twin, pp), (f, pp), o1, (f, pp), (f, pp), (f, pp), (heir, pp), o2, (twin, pp), (twin, pp)])
        asc = sorted(simple, key=lambda x: len(x[0]))
        seqs += [asc, asc[::-1], [x for pair in zip(asc, asc[::-1]) for x in pair]]
        for k, parts in enumerate(seqs):
            pos = 0
            rec = []
            for fr, pp in parts:
                rec.append({"a": pos, "b": pos + len(fr), "p": pp, "ok": -1, "dd": "", "fam": ""})
                pos += len(fr)
            S = b"".join(fr for fr, _ in parts)
            if prop == "C09" and len(S) > 700:
                continue
            yield ("runs", {"prop": prop, "S": S.hex(), "recipe": rec, "plan": plans(prop, rng, S, True), "conf": 1 if prop in ("C06", "C07") else 0,
                            "streamkind": ("min", "bytesio", "pipe", "sock")[k % (4 if prop != "C06" else 3)]})

    def gen_odd():
        """frames of EVERY payload definition of the tree whose payload is 1-3 bytes longer or shorter than the definition (valid framing):
        whatever the payload decoder makes of them, the reader must carry on with the frames behind them"""
        from ..common import frame as _frame
        from ..drivers import walk as _walk

        ctx.defs_file()
        odd = []
        for l in _walk.load_layouts(ctx, "MC_Walk_quick.cfg"):
            if not (l["reachable"] and l["pbf"] and l["c"] == 1 and l["m"] == 0):
                continue
            P = _walk.fill(l, "rand", rng, ctx.defs["cfgdb"])
            if len(P) > 400:
                continue
            k = 1 + (len(odd) % 3)
            odd.append((_frame(l["cls"], l["id"], P + rng.randbytes(k)), "UBX"))
            if len(P) > k:
                odd.append((_frame(l["cls"], l["id"], P[:-k]), "UBX"))
        nm = st.nmea_line("GNGLL,5327.04319,N,00214.41396,W,223232.00,A,A")
        step = 10 if prop != "C09" else 2
        for k in range(0, len(odd), step):
            if prop == "C09" and k % 40:
                continue
            parts = []
            for x in odd[k:k + step]:
                parts += [x, (nm, "NMEA")]
            pos = 0
            rec = []
            for fr, pp in parts:
                rec.append({"a": pos, "b": pos + len(fr), "p": pp, "ok": -1, "dd": "", "fam": ""})
                pos += len(fr)
            S = b"".join(fr for fr, _ in parts)
            yield ("runs", {"prop": prop, "S": S.hex(), "recipe": rec, "plan": plans(prop, rng, S, True), "conf": 0,
                            "streamkind": ("min", "bytesio", "pipe", "sock")[(k // step + (k // 40 if prop == "C09" else 0)) % (4 if prop != "C06" else 3)]})

    def gen_long():
        """long runs: more than a thousand consecutive frames of one protocol / rejected frames / noise bytes between two others
        (per-frame stack or buffer growth only shows on runs no ordinary mixture contains)"""
        from ..common import frame as _frame

        n = 5000 if big else 1500
        u1, u2 = _frame(0x05, 0x01, b"\x06\x01"), _frame(0x01, 0x03, bytes(16))
        nm = st.nmea_line("GNGLL,5327.04319,N,00214.41396,W,223232.00,A,A")
        rt = st.rtcm_frame(b"\x3e\xd0\x00")
        bad = u1[:-1] + bytes((u1[-1] ^ 1,))
        shapes = [[(u1, "UBX")] + [(nm, "NMEA")] * n + [(u2, "UBX"), (nm, "NMEA"), (u1, "UBX")],
                  [(nm, "NMEA")] + [(u1, "UBX")] * n + [(rt, "RTCM"), (nm, "NMEA")],
                  [(u2, "UBX")] + [(bad, "UBX")] * n + [(nm, "NMEA"), (u1, "UBX")],
                  [(u1, "UBX"), (bytes(3 * n), "NOISE"), (nm, "NMEA")]]
        for k, parts in enumerate(shapes):
            pos = 0
            rec = []
            for fr, pp in parts:
                rec.append({"a": pos, "b": pos + len(fr), "p": pp, "ok": 0 if pp == "NOISE" else -1, "dd": "", "fam": ""})
                pos += len(fr)
            S = b"".join(fr for fr, _ in parts)
            yield ("runs", {"prop": prop, "S": S.hex(), "recipe": rec, "plan": plans(prop, rng, S, True), "conf": 0, "streamkind": ("min", "bytesio")[k % 2]})

    def gen_tails():
        """streams whose LAST element is an unfinished frame of a particular shape: an NMEA sentence complete up to its checksum but
        without line terminator (nothing / CR only; good and bad checksum), a UBX frame lacking only its checksum, an RTCM3 frame lacking
        its CRC, a lone preamble"""
        good = st.nmea_line("GNGLL,5327.04319,N,00214.41396,W,223232.00,A,A")
        badck = good[:-4] + b"00\r\n"
        u = _tail_frame(0x01, 0x03, bytes(16))
        r = st.rtcm_frame(bytes(19))
        tails = [good[:-2], good[:-1], badck[:-2], badck[:-1], good[:-5], u[:-2], u[:-1], u[:6], r[:-3], r[:-1], b"$G", b"\xb5\x62", b"\xd3\x00"]
        simple = [x for x in pool if len(x[0]) < 60][:12]
        for k, tl in enumerate(tails):
            parts = [simple[k % len(simple)], simple[(k + 5) % len(simple)]]
            S = b"".join(fr for fr, _ in parts) + tl
            yield ("runs", {"prop": prop, "S": S.hex(), "recipe": [], "plan": plans(prop, rng, S, False), "conf": 1 if prop == "C07" else 0,
                            "streamkind": ("min", "bytesio", "pipe", "sock")[k % (4 if prop != "C06" else 3)]})

    def gen_pair():
        """two readers over unrelated streams used by one thread call by call in turn (the other one raises its errors to its caller,
        who carries on): what a reader returns is a function of its own stream.  Streams: frames that lost their first byte
        ("headless"), preamble pairs in front of frames, ordinary mixtures - each in both roles"""
        simple = [x[0] for x in pool if len(x[0]) < 80][:16]
        if len(simple) < 6:
            return
        headless = b"".join(f[1:] for f in simple[:6])
        mixed = simple[0][1:] + simple[1] + simple[2][1:] + simple[3][2:] + simple[4]
        pairs = b"".join(pp + f for pp, f in zip((b"\xd3\xb5", b"\xb5\xb5", b"\x24\x24", b"\xb5\x24", b"\xd3\x24", b"\x24\xd3", b"\xd3\xd3"), simple[6:13])) + b"\xd3\xb5"
        pairs2 = b"".join(pp + f[1:] for pp, f in zip((b"\xd3", b"\xb5", b"\x24", b"\xd3", b"\xb5"), simple[3:8]))
        plain = b"".join(simple[8:14])
        for k, (a, b) in enumerate(((headless, pairs), (pairs, headless), (mixed, pairs), (pairs, mixed), (pairs2, pairs), (pairs, pairs2), (plain, pairs), (pairs, plain),
                                    (headless, pairs2), (pairs2, headless), (plain, plain[::-1]))):
            yield ("runs", {"prop": prop, "S": a.hex(), "companion": b.hex(), "recipe": [], "plan": plans(prop, rng, a, False), "conf": 0,
                            "streamkind": ("min", "bytesio")[k % 2]})

    def gen_long9():
        """C09 on long runs: more than a thousand consecutive well-formed frames of a protocol the mask filters out, cut at a few places"""
        from ..common import frame as _frame

        n = 3000 if big else 1200
        u1, u2 = _frame(0x05, 0x01, b"\x06\x01"), _frame(0x01, 0x03, bytes(16))
        nm = st.nmea_line("GNGLL,5327.04319,N,00214.41396,W,223232.00,A,A")
        rt = st.rtcm_frame(b"\x3e\xd0\x00")
        for k, (parts, filts) in enumerate((([u1] + [nm] * n + [u2, nm, u1], (2, 6, 4)), ([nm] + [u1] * n + [rt, nm], (1, 5, 4)), ([u1] + [rt] * n + [u2, nm], (1, 3, 2)))):
            S = b"".join(parts)
            head = len(parts[0])
            for f in filts[: (3 if big else 2)]:
                cuts = [len(S), len(S) - 1, len(S) - len(parts[-1]), len(S) - len(parts[-1]) - len(parts[-2]) - 3, head + (len(S) - head) // 2, head]
                q = (k + f) % 2
                yield ("runs", {"prop": prop, "S": S.hex(), "recipe": [], "conf": 0, "streamkind": ("min", "bytesio")[k % 2],
                                "plan": [{"filter": f, "quit": q, "parsing": 1, "handler": 1}] + [{"filter": f, "quit": q, "parsing": 1, "cut": c, "handler": 1} for c in cuts]})

    def gen_huge():
        """more than a MiB through ONE reader: over a socket whose segments end inside frames, and as one contiguous run of frames
        the mask filters out between two wanted ones (byte counters, buffer compaction and skip limits only show at this size)"""
        from ..common import frame as _frame

        bigf = _frame(0x77, 0x05, bytes((k * 7) % 251 for k in range(64000)))
        u1 = _frame(0x05, 0x01, b"\x06\x01")
        nm = st.nmea_line("GNGLL,5327.04319,N,00214.41396,W,223232.00,A,A")
        parts = [nm] + [bigf] * 17 + [nm, u1, nm]
        S = b"".join(parts)
        rec, pos = [], 0
        for fr in parts:   # (a clean concatenation: the recipe says which frames lie where)
            rec.append({"a": pos, "b": pos + len(fr), "p": "NMEA" if fr is nm else "UBX", "ok": -1, "dd": "", "fam": ""})
            pos += len(fr)
        if prop == "C09":
            cuts = [len(S) - 3, len(S) - len(nm) - len(u1) - 1, len(S) // 2 + 5]
            for kind, f in (("sock", 7), ("bytesio", 1)):
                yield ("runs", {"prop": prop, "S": S.hex(), "recipe": rec, "conf": 0, "streamkind": kind,
                                "plan": [{"filter": f, "quit": 1, "parsing": 1, "handler": 1}] + [{"filter": f, "quit": 1, "parsing": 1, "cut": c, "handler": 1} for c in cuts]})
        else:
            for kind in ("min", "sock"):
                yield ("runs", {"prop": prop, "S": S.hex(), "recipe": rec, "plan": plans(prop, rng, S, True), "conf": 0, "streamkind": kind})

    neg = negfn_for(prop)
    if prop in ("C07", "C09", "C11"):
        run_batch(ctx, MODULE, CFG, gen_huge(), st.OBSERVERS, sigfn, neg, chunk=1, neg_every=1000)
    if prop in ("C07", "C11"):
        run_batch(ctx, MODULE, CFG, gen_pair(), st.OBSERVERS, sigfn, neg, chunk=40, neg_every=5)
    if prop == "C09":
        run_batch(ctx, MODULE, CFG, gen_long9(), st.OBSERVERS, sigfn, neg, chunk=2, neg_every=2)
    if prop == "C06":
        run_batch(ctx, MODULE, CFG, gen_library(), st.OBSERVERS, sigfn, neg, chunk=8000)
    if alpha_len:
        run_batch(ctx, MODULE, CFG, gen_small(), st.OBSERVERS, sigfn, neg, chunk=20000)
    if prop in ("C09", "C07", "C06", "C12", "C11", "C08"):
        run_batch(ctx, MODULE, CFG, gen_nested(), st.OBSERVERS, sigfn, neg, chunk=40 if prop == "C09" else 120, neg_every=7)
    if prop != "C09":
        run_batch(ctx, MODULE, CFG, gen_long(), st.OBSERVERS, sigfn, neg, chunk=4, neg_every=2)
    run_batch(ctx, MODULE, CFG, gen_repeat(), st.OBSERVERS, sigfn, neg, chunk=40 if prop in ("C09", "C11") else 120, neg_every=7)
    run_batch(ctx, MODULE, CFG, gen_odd(), st.OBSERVERS, sigfn, neg, chunk=40 if prop in ("C09", "C11") else 120, neg_every=7)
    if prop != "C06":
        run_batch(ctx, MODULE, CFG, gen_tails(), st.OBSERVERS, sigfn, neg, chunk=40, neg_every=5)
    run_batch(ctx, MODULE, CFG, gen_tour(), st.OBSERVERS, sigfn, neg, chunk=40 if prop in ("C09", "C11") else 120, neg_every=7)
    run_batch(ctx, MODULE, CFG, gen_big(), st.OBSERVERS, sigfn, neg, chunk=40 if prop in ("C09", "C11") else 120, neg_every=7)
    ctx.exhaustive = False
    ctx.extra["alphabet_max_len"] = alpha_len
    ctx.extra["clean_streams"] = n_clean
    ctx.extra["garbage_streams"] = n_garb
    ctx.extra["spec_drift_notes"] = ctx.drifts[:50]
    ctx.extra["spec_drift_count"] = len(ctx.drifts)
    ctx.assumptions += [
        "pynmeagps / pyrtcm parsers are environment: their verdict on a frame is obtained by calling them directly",
        "the recording stream behaves like io.BytesIO (read(n) returns min(n, remaining) bytes)",
    ]


def replay(ctx, body):
    replay_one(ctx, MODULE, CFG, st.OBSERVERS, body, sigfn)
