"""
C15 - bad attribute values are refused, never silently mis-encoded.

For every reachable (mode, definition) (TLC layouts, count 1) one attribute of each kind (plain integer, signed, scaled, bit flag,
grouped member, discriminator / count, X bytes, C chars, R float, A array, CH text) is given values that do not fit; the real
constructor is called with all other attributes taken from a parsed frame.  T_Build!JudgeC15: refused with UBXMessageError /
UBXTypeError, or accepted and encoded exactly as the value it denotes with every other byte as UbxBuild!Build prescribes.
"""

from ..drivers import build, walk
from . import replay_one, run_batch

MODULE, CFG = "T_Build", "T_Build.cfg"


def sigfn(o, i, ev, v):
    lay = i["lay"]
    tgt = i["tgt"]
    ent = None
    for e in lay["lay"]:
        if e["n"] == tgt and (e["x"] == 1 or e["k"] == "x"):
            ent = e
            break
    vt = "?"
    try:
        val = eval(i["value"], {"nan": float("nan"), "inf": float("inf"), "set": set, "__builtins__": {}})  # noqa: S307
        vt = type(val).__name__
        if isinstance(val, (bytes, str, list)) and ent is not None and ent["k"] == "f":
            vt += ":wrong-length" if len(val) != ent["size"] else ":right-length"
    except Exception:  # noqa: BLE001
        pass
    return {"observer": o, "mode": lay["m"], "def": lay["name"], "pbf": 1 if lay["pbf"] else 0, "kind": ":".join(v.split(":")[:2]),
            "exc": v.split(":")[-1] if v.startswith("C15:escaped") else "",
            "target_kind": (ent["k"] + ":" + ent["t"][:1]) if ent else "?", "value_type": vt, "structural": i.get("structural", 0)}


def negfn(ev):
    if ev.get("out") == "msg" and ev.get("P") and ev["tgt"][1] != "?":
        g = dict(ev)
        g["P"] = ev["P"][:-1] + [(ev["P"][-1] + 1) % 256]
        return g
    return None


def bad_values(e, rng):
    """python literals (as source text) that do not fit entry e"""
    k, t = e["k"], e["t"]
    out = []
    if k == "x":
        w = e["w"]
        out += [str(1 << w), str((1 << w) + 1), "-1", str(1 << 64), "1.5", "None", "'1'", "b'\\x01'", "[1]", "True", "(1,)"]
        return out
    kind = t[:1]
    n = e["size"]
    if t == "CH":
        # wrong types, and text too long for any frame (the 16-bit length field): refused, or carried faithfully
        return ["5", "None", "[1]", "1.5", "b'abc'", "True", "'y' * 65535", "'y' * 65536", "'y' * 70000"]
    if kind in "UEL":
        top = 1 << (8 * n)
        out += [str(top), str(top + 1), "-1", str(1 << 64), str(-(1 << 63) - 1), "10 ** 4400", "-(10 ** 5000)", "0.5", "3.0", "nan", "inf", "None", "'12'", "b'\\x01'", "[1, 2]",
                "True", "{}", "(1, 2)", str(top - 1)]
    elif kind == "I":
        half = 1 << (8 * n - 1)
        out += [str(half), str(-half - 1), str(1 << 64), str(-(1 << 63) - 1), "10 ** 4400", "0.5", "nan", "-inf", "None", "'x'", "b''", "[0]", "False", "set()",
                str(half - 1), str(-half)]
    elif kind in "XC":
        for ln in sorted({0, 1, n - 1, n + 1, n + 2}):
            if ln >= 0 and ln != n:
                out.append(repr(bytes((0x41 + j) % 256 for j in range(ln))))
        out += ["5", str(n), "1.5", "None", "[1, 2, 3]", repr([0] * n), repr("z" * n), repr("z" * (n + 1)), "True", "{}", repr(bytes(n)),
                # buffer objects: the right number of ITEMS but two / four bytes each, and plain ones of the right and the wrong length
                "memoryview(%r).cast('H')" % bytes(2 * n), "memoryview(%r).cast('I')" % bytes(4 * n), "memoryview(%r)" % bytes(n), "bytearray(%r)" % bytes(n + 1)]
    elif kind == "R":
        out += ["'1.0'", "None", "b'\\x00\\x00\\x00\\x00'", "[1.0]", "nan", "inf", "-inf", "-0.0", "1e39" if n == 4 else "1e400", "10 ** 4400", "True", "{}", "7",
                "-85", "2 ** 40" if n == 8 else "2 ** 24", "-(2 ** 33)" if n == 8 else "-(2 ** 20)"]
    elif kind == "A":
        out += ["[0] * %d" % (n - 1) if False else repr([0] * (n - 1)), repr([0] * (n + 1)), "[]", repr([256] + [0] * (n - 1)), repr([-1] + [0] * (n - 1)),
                repr(["a"] + [0] * (n - 1)), "5", "None", repr(bytes(n)), "(0,)"]
    if e["sc"] == 1:
        out += ["1e300", "-1e300"]
    return out


def run(ctx):
    rng = ctx.rng
    ctx.rule = ("for every reachable (mode, definition) x bitfield view: up to one attribute per kind (plain/signed/scaled/flag/grouped/"
                "count or discriminator/X/C/R/A/CH) x ~12-17 ill-fitting values (out-of-range ints, negatives, floats incl. nan/inf, str/bytes of "
                "wrong length, lists, None, bool, containers).  Non-trivial = the judge decided refused-or-exact; distinct by (layout, attribute, value)")
    ctx.defs_file()
    walk.CFGTYPES = {e["n"]: e["t"] for e in ctx.defs["cfgdb"]}
    alllays = walk.load_layouts(ctx, "MC_Walk_quick.cfg")

    def _nested(l):
        return any(len(e["n"]) > 6 and e["n"][-6] == "_" and e["n"][-3] == "_" and e["n"][-5:-3].isdigit() and e["n"][-2:].isdigit() for e in l["lay"])

    lays = [l for l in alllays if l["reachable"] and (l["c"] == 1 or (l["c"] == 2 and _nested(l)))]
    cfgdb = ctx.defs["cfgdb"]

    # (mode, definition, count, view) -> layout: the other view of a layout tells which keyword names are NOT attributes in this one
    byview = {(l["m"], l["name"], l["c"], bool(l["pbf"])): l for l in alllays}

    def gen():
        for li, l in enumerate(lays):
            P0 = build.zero_hp(l, walk.fill(l, "count", rng, cfgdb))
            structural = set(f["n"] for f in l["fixes"]) | set(c03_disc(l))
            # (variants the PARSER selects by payload length are selected by a keyword when built: TIM-VCOCAL by type, RXM-PMREQ by
            # version - that keyword belongs to what must be supplied, or the message is never built and never judged)
            structural |= {e["n"] for e in l["lay"][:2] if e["k"] == "f" and e["x"] == 1 and e["n"] in ("type", "version", "datumNum") and l["m"] == 1 and (l["cls"], l["id"]) in ((0x0D, 0x15), (0x02, 0x41), (0x06, 0x06))}
            # keywords that name NO attribute of the message in this view: the raw bitfield's own name while flags are exposed (and a
            # flag's name while they are not), an index beyond the group count, the bare name of a grouped attribute, a foreign name:
            # whatever their value, the message is refused or built exactly as without them
            if li % 2 == 0:
                mine = {e["n"] for e in l["lay"]}
                other = byview.get((l["m"], l["name"], l["c"], not l["pbf"]))
                strangers = [e["n"] for e in (other["lay"] if other else []) if e["n"] not in mine and e["k"] in ("f", "x")][:3]
                grouped = [e["n"] for e in l["lay"] if e["x"] == 1 and e["n"][-3:-2] == "_" and e["n"][-2:].isdigit()][:1]
                for g in grouped:
                    strangers += [g[:-3], g[:-2] + "%02d" % (int(g[-2:]) + l["c"] + 7)]
                strangers.append("fooBar")
                for sname in strangers:
                    if sname in mine or sname == "payload":
                        continue
                    for v in ("b'\\x18\\x00'", "3", "b'\\xff\\xff\\xff\\xff'", "[1, 2]"):
                        yield ("c15", {"_k": "stranger:%d:%s:%s" % (li, sname, v), "lay": l, "P0": P0.hex(), "tgt": sname, "value": v, "keep": sorted(structural),
                                       "structural": 0, "synth": [] if l["pbf"] else sorted({x["n"] for x in l["lay"] if x["k"] == "f" and x["t"][:1] == "X" and x["x"] == 1})})
            # nested groups: attributes with two index levels whose indices differ (supplied sparsely: structural attributes + this one)
            nested = [e for e in l["lay"] if e["x"] == 1 and e["k"] == "f" and len(e["n"]) > 6 and e["n"][-6] == "_" and e["n"][-3] == "_"
                      and e["n"][-5:-3].isdigit() and e["n"][-2:].isdigit() and e["n"][-5:-3] != e["n"][-2:]]
            for e in nested[:6]:
                for v in bad_values(e, rng)[:4] + ["5", "1"]:
                    yield ("c15", {"_k": "nested:%d:%s:%s" % (li, e["n"], v), "lay": l, "P0": P0.hex(), "tgt": e["n"], "value": v, "keep": sorted(structural),
                                   "structural": 0, "synth": []})
            chosen = {}
            for e in l["lay"]:
                # reserved flags are no attributes: they are not exposed and take no keyword (a few are still offered one: whatever
                # the value, nothing in the payload may move - the judge treats the name as not part of the message)
                hidden_flag = e["k"] == "x" and e["x"] == 0 and l["pbf"] and sum(1 for y in l["lay"] if y["n"] == e["n"]) == 1 and li % 9 == 0
                if (e["x"] != 1 and not hidden_flag) or e["k"] == "cfg" or e["n"].startswith("_HP"):
                    continue
                key = (e["k"], e["t"][:1] if e["k"] == "f" else "", e["sc"], "_" in e["n"], e["n"] in structural, hidden_flag)
                chosen.setdefault(key, []).append(e)
            # one attribute of each kind per layout (thorough: two); WHICH one varies with the seed, so that no attribute name is exempt for good
            picks = []
            for cand in chosen.values():
                picks += rng.sample(cand, min(len(cand), 2 if ctx.thorough else 1))
            for e in picks:
                vals = bad_values(e, rng)
                if not ctx.thorough and len(vals) > 9:
                    vals = rng.sample(vals, 9)
                for v in vals:
                    yield ("c15", {"_k": "%d:%s:%s" % (li, e["n"], v), "lay": l, "P0": P0.hex(), "tgt": e["n"], "value": v, "keep": sorted(structural),
                                   "structural": 1 if e["n"] in structural else 0,
                                   # raw bitfields that hold a group count are part of what must be supplied when the view hides the flags
                                   "synth": [] if l["pbf"] else sorted({x["n"] for x in l["lay"] if x["k"] == "f" and x["t"][:1] == "X" and x["x"] == 1})})

    run_batch(ctx, MODULE, CFG, gen(), build.OBSERVERS, sigfn, negfn, chunk=6000)

    # a sample of the same cases in child interpreters started with -O / -OO, another hash seed, time zone and locale variables
    from . import run_opt

    _pool = [i for o, i in gen() if o == "c15"]
    ctx.rng.shuffle(_pool)
    run_opt(ctx, MODULE, CFG, "build:c15", _pool[: (3000 if ctx.thorough else 800)], sigfn)
    ctx.exhaustive = False


def c03_disc(l):
    from .c03 import disc_names

    return disc_names(l)


def replay(ctx, body):
    ctx.defs_file()
    walk.CFGTYPES = {e["n"]: e["t"] for e in ctx.defs["cfgdb"]}
    replay_one(ctx, MODULE, CFG, build.OBSERVERS, body, sigfn)
