"""
C16 - every declared message type obeys the grammar and is usable.

MC_Grammar (TLC): exhaustive over the payload tables, message-ID table, variant table and configuration database
of the working tree; every entry whose GrammarVerdict is not "ok" is a violation (or a known finding).
Usability: the nominal instance (TLC layout, zero-filled, counts 0 and 1, both bitfield views) of every reachable
(message, mode) is built with the real constructor and parsed with the real parser; T_Walk / T_Build judge it.
"""

from ..common import MachineryError
from ..drivers import walk
from . import c02, replay_one, run_batch

MODULE, CFG = "T_Walk", "T_Walk.cfg"


def grammar(ctx, kinds, prop):
    from .. import tlc

    lines = []
    r = tlc.run("MC_Grammar", "MC_Grammar.cfg", ctx.work, env={"DEFS_FILE": ctx.defs_file()},
                print_sink=lambda s: lines.append(s) if s.startswith("G ") else None)
    if r.violated:
        raise MachineryError("MC_Grammar: %s" % r.violated)
    ctx.states += r.distinct
    ctx.transitions += r.generated
    d = r.as_dict()
    d["module"], d["cfg"] = "MC_Grammar", "MC_Grammar.cfg"
    ctx.tlc_runs.append(d)
    n = 0
    for l in lines:
        _, kind, mode, name, verdict = l.split(" ", 4)
        if kind not in kinds:
            continue
        n += 1
        head = verdict.split(":")[0]
        ctx.violation(prop + ":grammar:" + head, {"kind": kind, "mode": mode, "entry": name, "verdict": verdict},
                      {"observer": "grammar", "input": {"kind": kind, "mode": mode, "entry": name, "verdict": verdict}})
    ctx.evaluations += r.distinct
    ctx.nontrivial += r.distinct - len(lines)
    ctx.sample({"grammar_entries_checked": r.distinct, "not_ok": lines[:12]})
    return r.distinct


def sigfn(o, i, ev, v):
    s = c02.sigfn(o, i, ev, v)
    s["kind"] = s["kind"].replace("C16:", "usable:")
    return s


def run(ctx):
    ctx.rule = ("exhaustive: one TLC state per entry of the GET/SET/POLL payload tables, the message-ID table, the variant table "
                "(and configuration database types) of the working tree; plus the nominal instance of every reachable (message, mode) "
                "x counts {0,1} x both bitfield views built and parsed by the real code.  Non-trivial = entry checked and grammatical / "
                "nominal instance conforming and compared")
    ctx.defs_file()
    walk.CFGTYPES = {e["n"]: e["t"] for e in ctx.defs["cfgdb"]}
    n = grammar(ctx, ("def", "variant", "msgid", "cfg"), "C16")
    all_lays = walk.load_layouts(ctx, "MC_Walk_quick.cfg")
    lays = [l for l in all_lays if l["c"] in (0, 1)]
    ctx.extra["unreachable_table_entries"] = sorted({"%s %s" % (("GET", "SET", "POLL")[l["m"]], l["name"]) for l in lays if not l["reachable"]})
    run_batch(ctx, MODULE, CFG, c02.cases(ctx, lays, ("zero", "one"), prop="C16"), walk.OBSERVERS, sigfn, c02.negfn, chunk=6000)
    # variants of one message whose payloads have the SAME length (counts computed from the TLC layouts): each must still be parsed by
    # its own definition - a declared variant stays usable next to its siblings
    col = walk.collision_layouts(ctx, all_lays)
    if col:
        run_batch(ctx, MODULE, CFG, c02.cases(ctx, col, ("rand", "zero"), prop="C16"), walk.OBSERVERS, sigfn, c02.negfn, chunk=300)
    ctx.extra["variant_length_collisions"] = len(col)
    # the nominal instances again in child interpreters started with -bb (bytes / str confusion is an error there) and with -O:
    # a declared message type is usable in every interpreter mode (static, constructor and stream routes rotate inside the observer)
    from . import run_opt

    _pool = [i for o, i in c02.cases(ctx, [l for l in lays if l["reachable"]], ("one",), prop="C16") if o == "c02"]
    run_opt(ctx, MODULE, CFG, "walk:c02", _pool, sigfn, flags_list=(("-bb",), ("-O", "-bb")))
    # every declared mode of a message used back to back in ONE interpreter (GET, SET, POLL of the same class/ID, ascending and
    # descending): a declared (message, mode) must stay usable whichever of its sibling modes was handled before it
    sib = [l for l in lays if l["c"] == 1 and l["reachable"] and l["pbf"]]
    for rev in (False, True):
        order = sorted(sib, key=lambda l: (l["cls"], l["id"], -l["m"] if rev else l["m"], l["name"]))
        run_batch(ctx, MODULE, CFG, list(c02.cases(ctx, order, ("count",), prop="C16")), walk.OBSERVERS, sigfn, c02.negfn, chunk=6000, parallel=False)
    ctx.extra["sibling_mode_sequences"] = 2 * len(sib)
    # ... and right after a hostile history (a construction refused inside a repeating group, a parse failing inside a group)
    from ..drivers import history

    hists = history.recipes(all_lays, ctx.rng, walk.fill, ctx.defs["cfgdb"])

    def hist_cases():
        for k, (o, c) in enumerate(c02.cases(ctx, sib, ("one",), prop="C16")):
            yield (o, dict(c, hist=hists[k % len(hists)]) if hists else c)

    run_batch(ctx, MODULE, CFG, hist_cases(), walk.OBSERVERS, sigfn, c02.negfn, chunk=6000)
    ctx.extra["hostile_histories"] = len(hists)
    # the payload-less and the nominal instance of every declared (message, mode), addressed by bytes, by integers and by names
    from ..drivers import build as _build
    from . import c04 as _c04

    def gen_forms():
        seen = set()
        for l in lays:
            if not l["reachable"] or not l["pbf"] or (l["m"], l["name"]) in seen:
                continue
            seen.add((l["m"], l["name"]))
            nm = _c04.names_for(ctx.defs, l["cls"], l["id"], l["bfix"])
            base = {"m": l["m"], "cls": l["cls"], "id": l["id"], "name": l["name"], "names": nm}
            yield ("c04", dict(base, route="none", P=None, kwargs=None))
            if l["c"] == 0 and l["len"] is not None and l["len"] >= 0:
                yield ("c04", dict(base, route="payload", P=walk.fill(l, "zero", ctx.rng, ctx.defs["cfgdb"]).hex(), kwargs=None))

    def sig4(o, i, ev, v):
        return {"observer": o, "mode": i.get("m", -1), "def": i.get("name", ""), "kind": "usable-by-every-addressing:" + v}

    run_batch(ctx, "T_Frame", "T_Frame.cfg", gen_forms(), _build.OBSERVERS, sig4, _c04.negfn, chunk=6000)
    try:
        from . import buildprops
        buildprops.nominal_build(ctx, lays)
    except ImportError:
        ctx.note("constructor half of the usability clause is checked by C03/C04 (build machinery)")
    ctx.exhaustive = True
    ctx.extra["table_entries"] = n


def replay(ctx, body):
    ctx.defs_file()
    walk.CFGTYPES = {e["n"]: e["t"] for e in ctx.defs["cfgdb"]}
    if body["case"]["observer"] == "grammar":
        before = len(ctx.violations) + len(ctx.known_hits)
        grammar(ctx, ("def", "variant", "msgid", "cfg"), "C16")
        want = body["case"]["input"]
        ctx.violations = [v for v in ctx.violations if v["case"]["input"]["entry"] == want["entry"] and v["case"]["input"]["mode"] == want["mode"]]
        return
    replay_one(ctx, MODULE, CFG, walk.OBSERVERS, body, sigfn)
