"""
C14 - configuration-database messages carry exactly the keys and values given.

MC_Grammar (TLC, exhaustive over the 1242 keys of the tree): type width = size code, valid types, key IDs unique (aliases reported).
T_Config (TLC): every key x {by name, by ID} x boundary values through config_set; config_del / config_poll; list lengths 0..64 and 65;
header sweeps; every name / key through the lookups.  T_Walk (TLC): CFG-VALSET (SET) and CFG-VALGET (GET) payloads holding lists of
known and unknown keys are parsed by the real code and compared with UbxWalk!CfgItems.
"""

from ..drivers import config, walk
from . import c02, c16, replay_one, run_batch

MODULE, CFG = "T_Config", "T_Config.cfg"


def sigfn(o, i, ev, v):
    s = {"observer": o, "kind": ":".join(v.split(":")[:2])}
    if o == "lookup":
        s["name"] = i.get("name", "")
        s["dir"] = i["dir"]
    elif o == "helper":
        s["fn"] = i["fn"]
        s["n"] = len(i["items"])
    return s


def negfn(ev):
    if ev.get("kind") == "helper" and ev["out"] == "msg" and len(ev["P"]) > 4:
        g = dict(ev)
        g["P"] = ev["P"][:-1] + [(ev["P"][-1] + 1) % 256]
        return g
    if ev.get("kind") == "lookup" and ev.get("dir") == "name2key" and ev["out"] == "ok":
        g = dict(ev)
        g["key"] = [(ev["key"][0] + 1) % 256] + ev["key"][1:]
        return g
    return None


def boundary_values(t, rng):
    kind, n = t[:1], int(t[1:4])
    if kind == "L":
        return ["0", "1", "2", "255"]  # a boolean stored as U1: every 8-bit value is in the type's range
    if kind in "UE":
        top = 1 << (8 * n)
        return ["0", "1", str(top - 1), str(top // 2), str(rng.randrange(top))]
    if kind == "I":
        h = 1 << (8 * n - 1)
        return ["0", "-1", str(h - 1), str(-h), str(rng.randrange(-h, h))]
    if kind == "R":
        return ["0.0", "-0.0", "1.5", "-2.25e10", repr(rng.random()), "float('inf')" if False else "3.4e38" if n == 4 else "1.7e308"]
    return [repr(bytes(n)), repr(b"\xff" * n), repr(rng.randbytes(n))]


def run(ctx):
    rng = ctx.rng
    ctx.rule = ("exhaustive over the configuration database of the tree (one TLC state per key); every key x {name, ID} x boundary values via "
                "config_set, config_del, config_poll; lists of 0,1,2,63,64,65 items; header sweeps; every name and key through the lookups; "
                "CFG-VALSET/VALGET payloads with known and unknown keys parsed.  Non-trivial = the judge compared a payload / lookup")
    ctx.defs_file()
    db = ctx.defs["cfgdb"]
    walk.CFGTYPES = {e["n"]: e["t"] for e in db}
    c16.grammar(ctx, ("cfg",), "C14")

    def key_int(e):
        return int.from_bytes(bytes(e["key"]), "little")

    def item(e, byname, v):
        return {"byname": byname, "name": e["n"], "key": key_int(e), "t": e["t"], "v": v}

    def unknown_item(code, v=None):
        size = {1: 1, 2: 1, 3: 2, 4: 4, 5: 8}[code]
        kid = (code << 28) | (rng.randrange(1, 0xFF) << 16) | rng.randrange(0xF000, 0xFFFF)
        return {"byname": False, "name": "", "key": kid, "t": "X%03d" % size, "v": repr(rng.randbytes(size)) if v is None else v}

    def near_miss(e):
        """an UNDOCUMENTED key derived from a documented one: same group/item, other size code (or item/group off by one)"""
        k = key_int(e)
        docs = near_miss.docs
        for _ in range(20):
            r = rng.random()
            if r < 0.6:
                c = rng.choice([x for x in (1, 2, 3, 4, 5) if x != (k >> 28) & 7])
                k2 = (k & 0x8FFFFFFF) | (c << 28)
            elif r < 0.8:
                k2 = k ^ (1 << rng.randrange(0, 12))
            else:
                k2 = k ^ (1 << rng.randrange(16, 24))
            if k2 not in docs and 1 <= (k2 >> 28) & 7 <= 5:
                size = {1: 1, 2: 1, 3: 2, 4: 4, 5: 8}[(k2 >> 28) & 7]
                return {"byname": False, "name": "", "key": k2, "t": "X%03d" % size, "v": repr(rng.randbytes(size))}
        return unknown_item(rng.randrange(1, 6))

    near_miss.docs = {key_int(e) for e in db}

    def gen_lookup():
        for e in db:
            yield ("lookup", {"dir": "name2key", "name": e["n"]})
            yield ("lookup", {"dir": "key2name", "key": key_int(e)})
        for n in ("CFG_NOPE", "", "cfg_nmea_protver", "CFG_NMEA_PROTVER "):
            yield ("lookup", {"dir": "name2key", "name": n})
        for _ in range(400 if not ctx.thorough else 5000):
            yield ("lookup", {"dir": "key2name", "key": unknown_item(rng.randrange(1, 6))["key"]})
        # reserved bits of a key ID set (12..15, 24..27: other, undocumented keys; 31 and size codes 0, 6, 7: invalid IDs)
        for e in rng.sample(db, 60):
            k = key_int(e)
            for bit in (12, 15, 24, 27, 31):
                yield ("lookup", {"dir": "key2name", "key": k ^ (1 << bit)})
            yield ("lookup", {"dir": "key2name", "key": (k & 0x8FFFFFFF) | (rng.choice((0, 6, 7)) << 28)})
        for e in (db if ctx.thorough else rng.sample(db, 400)):
            yield ("lookup", {"dir": "key2name", "key": near_miss(e)["key"]})

    def gen_helpers():
        for e in db:
            for byname in (True, False):
                for v in boundary_values(e["t"], rng):
                    yield ("helper", {"fn": "config_set", "a": rng.choice((1, 2, 4, 7)), "b": rng.choice((0, 1, 2, 3)), "items": [item(e, byname, v)]})
                yield ("helper", {"fn": "config_del", "a": rng.choice((2, 4, 6)), "b": rng.choice((0, 1, 2, 3)), "items": [item(e, byname, None)]})
                yield ("helper", {"fn": "config_poll", "a": rng.choice((0, 1, 2, 7)), "b": rng.randrange(0, 65536), "items": [item(e, byname, None)]})
        # list lengths, mixed addressing, unknown keys, header sweeps
        for n in (0, 1, 2, 3, 10, 63, 64, 65, 66, 100):
            for rep in range(3 if not ctx.thorough else 20):
                es = rng.sample(db, min(n, len(db)))
                its = [item(e, rng.random() < 0.5, rng.choice(boundary_values(e["t"], rng))) for e in es]
                for k in range(len(its)):
                    if rng.random() < 0.15:
                        its[k] = unknown_item(rng.randrange(1, 6)) if rng.random() < 0.5 else near_miss(rng.choice(db))
                yield ("helper", {"fn": "config_set", "a": rng.randrange(0, 8), "b": rng.randrange(0, 4), "items": its})
                yield ("helper", {"fn": "config_del", "a": rng.randrange(0, 8), "b": rng.randrange(0, 4), "items": its})
                yield ("helper", {"fn": "config_poll", "a": rng.choice((0, 1, 2, 7)), "b": rng.choice((0, 1, 255, 256, 65535)), "items": its})
        # the same key more than once in one list (same name twice, same ID twice, by name and by ID): every given item must appear, in order
        for rep in range(12 if not ctx.thorough else 200):
            e, e2 = rng.sample(db, 2)
            vs = boundary_values(e["t"], rng)
            pat = rng.choice(("nn", "ii", "ni", "nxn", "ixi", "many"))
            if pat == "nn":
                its = [item(e, True, vs[0]), item(e, True, vs[-1])]
            elif pat == "ii":
                its = [item(e, False, vs[0]), item(e, False, vs[-1])]
            elif pat == "ni":
                its = [item(e, True, vs[1]), item(e, False, vs[0])]
            elif pat == "nxn":
                its = [item(e, True, vs[0]), item(e2, True, boundary_values(e2["t"], rng)[1]), item(e, True, vs[2])]
            elif pat == "ixi":
                its = [item(e, False, vs[0]), item(e2, False, boundary_values(e2["t"], rng)[1]), item(e, False, vs[2])]
            else:
                its = [item(e, bool(k % 2), vs[k % len(vs)]) for k in range(rng.choice((5, 64)))]
            yield ("helper", {"fn": "config_set", "a": rng.randrange(0, 8), "b": rng.randrange(0, 4), "items": its})
            yield ("helper", {"fn": "config_del", "a": rng.randrange(0, 8), "b": rng.randrange(0, 4), "items": its})
            yield ("helper", {"fn": "config_poll", "a": rng.choice((0, 1, 2, 7)), "b": rng.choice((0, 1, 255)), "items": its})
        # the largest list there is: 64 items with 8-byte values (documented 8-byte keys and undocumented size-code-5 IDs)
        wide = [e for e in db if int(e["t"][1:4]) == 8]
        for rep in range(2 if not ctx.thorough else 10):
            its = [item(e, rep % 2 == 0, boundary_values(e["t"], rng)[-1]) for e in rng.sample(wide, min(len(wide), 40))]
            while len(its) < 64:
                its.append(unknown_item(5))
            yield ("helper", {"fn": "config_set", "a": 1, "b": 0, "items": its})
            yield ("helper", {"fn": "config_set", "a": 7, "b": 1, "items": its[:63]})
        for layers in range(0, 8):
            for txn in range(0, 4):
                e = rng.choice(db)
                yield ("helper", {"fn": "config_set", "a": layers, "b": txn, "items": [item(e, True, boundary_values(e["t"], rng)[0])]})
                yield ("helper", {"fn": "config_del", "a": layers, "b": txn, "items": [item(e, False, None)]})

    run_batch(ctx, MODULE, CFG, gen_lookup(), config.OBSERVERS, sigfn, negfn, chunk=20000)
    run_batch(ctx, MODULE, CFG, gen_helpers(), config.OBSERVERS, sigfn, negfn, chunk=20000)
    # parsing of CFG-VALSET (SET) / CFG-VALGET (GET) with lists of keys
    lays = [l for l in walk.load_layouts(ctx, "MC_Walk_quick.cfg")
            if l["reachable"] and l["c"] == 0 and ((l["name"] == "CFG-VALSET" and l["m"] == 1) or (l["name"] == "CFG-VALGET" and l["m"] == 0))]

    def sig2(o, i, ev, v):
        s = c02.sigfn(o, i, ev, v)
        s["kind"] = s["kind"].replace("C14:", "parse:")
        return s

    # every key of the database with the extreme values of its type, eight keys per message, parsed as CFG-VALSET (SET) and CFG-VALGET (GET)
    import struct as _struct

    def extreme(t, which):
        kind, n = t[:1], int(t[1:4])
        if kind == "R":
            return _struct.pack("<f" if n == 4 else "<d", (-1.5, 2.25e10)[which])
        if kind == "I":
            return ((1 << (8 * n - 1)).to_bytes(n, "little"), ((1 << (8 * n - 1)) - 1).to_bytes(n, "little"))[which]  # most negative / largest
        return (b"\xff" * n, b"\x80" + bytes(n - 1) if n > 1 else b"\x80")[which] if which == 0 else (bytes(n - 1) + b"\x80")

    def gen_everykey():
        for l in lays:
            for which in (0, 1):
                for k in range(0, len(db), 8):
                    seen, body = set(), b""
                    for e in db[k:k + 8]:
                        if tuple(e["key"]) not in seen:  # (the database holds one alias: two names for one key ID - known finding D18)
                            seen.add(tuple(e["key"]))
                            body += bytes(e["key"]) + extreme(e["t"], which)
                    P = bytes((0, 1, 0, 0)) + body
                    yield ("c02", {"_k": "every:%d:%d:%d" % (l["m"], which, k), "prop": "C14", "lay": l, "P": P.hex()})

    def gen_related():
        """keys whose NAMES are related (one extends the other: X and X_HP, X and X_ENA ...) together in one message, in both orders,
        with non-zero values: each key's attribute is its own value, whatever else the list holds"""
        byname = {e["n"]: e for e in db}
        pairs = [(a, b) for a in db for b in db if b["n"].startswith(a["n"] + "_") and tuple(a["key"]) != tuple(b["key"])]
        ctx.extra["related_key_pairs"] = len(pairs)
        for l in lays:
            for k, (a, b) in enumerate(pairs):
                for order in ((a, b), (b, a)):
                    for which in (0, 1):
                        body = b"".join(bytes(e["key"]) + extreme(e["t"], which) for e in order)
                        yield ("c02", {"_k": "rel:%d:%d:%d:%s" % (l["m"], k, which, order[0]["n"]), "prop": "C14", "lay": l, "P": (bytes((0, 1, 0, 0)) + body).hex()})
        del byname

    def gen_len256():
        """key lists whose payload length is an exact multiple of 256 (4 + 5a + 6b = 256, 512, 768 with one- and two-byte keys; 21 / 42
        eight-byte keys): length bytes of 00 01, 00 02, 00 03"""
        k1 = [e for e in db if e["t"][1:4] == "001" and e["t"][0] in "UEL"]
        k2 = [e for e in db if e["t"][1:4] == "002" and e["t"][0] in "UEI"]
        k8 = [e for e in db if e["t"][1:4] == "008"]
        combos = []
        for T in (256, 512, 768, 1024):
            for b in range(0, 200):
                rest = T - 4 - 6 * b
                if rest >= 0 and rest % 5 == 0 and rest // 5 <= len(k1) and b <= len(k2):
                    combos.append((rest // 5, b, 0))
                    break
            if (T - 4) % 12 == 0 and (T - 4) // 12 <= len(k8):
                combos.append((0, 0, (T - 4) // 12))
        for l in lays:
            for ci, (a, b, c8) in enumerate(combos):
                for which in (0, 1):
                    items = rng.sample(k1, a) + rng.sample(k2, b) + rng.sample(k8, c8)
                    rng.shuffle(items)
                    body = b"".join(bytes(e["key"]) + extreme(e["t"], which) for e in items)
                    P = bytes((0, 1, 0, 0)) + body
                    yield ("c02", {"_k": "len256:%d:%d:%d" % (l["m"], ci, which), "prop": "C14", "lay": l, "P": P.hex()})

    run_batch(ctx, "T_Walk", "T_Walk.cfg", gen_everykey(), walk.OBSERVERS, sig2, c02.negfn, chunk=4000)
    run_batch(ctx, "T_Walk", "T_Walk.cfg", gen_len256(), walk.OBSERVERS, sig2, c02.negfn, chunk=4000)
    run_batch(ctx, "T_Walk", "T_Walk.cfg", gen_related(), walk.OBSERVERS, sig2, c02.negfn, chunk=4000)
    pats = ("zero", "one", "ones", "rand", "rand", "rand", "rand", "count") * (2 if not ctx.thorough else 30)
    run_batch(ctx, "T_Walk", "T_Walk.cfg", c02.cases(ctx, lays, pats, prop="C14"), walk.OBSERVERS, sig2, c02.negfn, chunk=4000)
    ctx.exhaustive = False
    ctx.extra["database_keys"] = len(db)


def replay(ctx, body):
    ctx.defs_file()
    walk.CFGTYPES = {e["n"]: e["t"] for e in ctx.defs["cfgdb"]}
    o = body["case"]["observer"]
    if o == "grammar":
        c16.grammar(ctx, ("cfg",), "C14")
        want = body["case"]["input"]
        ctx.violations = [v for v in ctx.violations if v["case"]["input"]["entry"] == want["entry"]]
    elif o == "c02":
        replay_one(ctx, "T_Walk", "T_Walk.cfg", walk.OBSERVERS, body, c02.sigfn)
    else:
        replay_one(ctx, MODULE, CFG, config.OBSERVERS, body, sigfn)
