"""
C01 - parse o serialize is the identity on accepted well-formed frames.

MC: MC_Frame RoundTrip lemma (every frame over a 6-byte alphabet, payload length 0..3).
code -> spec: UBXReader.parse on generated well-formed frames (all message IDs of the tree, random
and - thorough - all 65,536 class/ID pairs; many payload lengths incl. 0 and 65,535; every msgmode and
bitfield setting); serialize/msg_cls/msg_id/length/payload/eval(repr) recorded and judged by T_Frame.
"""

from ..common import STEER_TARGETS, frame, steer
from ..drivers import frames
from . import replay_one, run_batch

MODULE, CFG = "T_Frame", "T_Frame.cfg"


def sigfn(o, i, ev, v):
    f = ev.get("f", [])
    return {"observer": o, "cls": f[2] if len(f) > 3 else -1, "id": f[3] if len(f) > 3 else -1,
            "plen": len(f) - 8, "mode": ev.get("mode"), "pbf": ev.get("pbf")}


def negfn(ev):
    if ev.get("out") == "msg" and len(ev.get("ser", [])) >= 8:
        g = dict(ev)
        k = len(ev["ser"]) // 2
        g["ser"] = ev["ser"][:k] + [ev["ser"][k] ^ 1] + ev["ser"][k + 1:]
        return g
    return None


def run(ctx):
    rng = ctx.rng
    d = None
    ctx.defs_file()
    d = ctx.defs
    ctx.rule = ("well-formed frames built by the harness (own Fletcher) for class/ID pairs x payload lengths x "
                "msgmode{GET,SET,POLL,SETPOLL} x parsebitfield{0,1} x validate; non-trivial = parse returned a message "
                "for a frame TLC finds well-formed; distinct by (frame bytes, mode, pbf, validate)")
    ctx.mc("MC_Frame", "MC_Frame_lemma.cfg")
    known = sorted({(m["key"][0], m["key"][1]) for m in d["msgids"]})
    pairs = list(known)
    nrand = 65536 if ctx.thorough else 1024
    if ctx.thorough:
        allpairs = [(c, i) for c in range(256) for i in range(256)]
    else:
        allpairs = [(rng.randrange(256), rng.randrange(256)) for _ in range(nrand)]
    configs = [(m, p) for m in (0, 1, 2, 3) for p in (0, 1)]

    def rb(n):
        return rng.randbytes(n)

    def gen():
        # all IDs of the tree x many lengths x all configs
        lens = [0, 1, 2, 3, 4, 8, 12, 20, 28, 36, 44, 92] if not ctx.thorough else list(range(0, 41)) + [44, 52, 60, 68, 92, 100, 164, 260, 300, 528]
        for (c, i) in known:
            for n in lens:
                pl = rb(n)
                fr = frame(c, i, pl).hex()
                for (m, p) in configs:
                    yield ("c01", {"f": fr, "mode": m, "pbf": p, "validate": 1})
            # zero-filled and ff-filled payloads
            for n in (1, 2, 8, 40):
                for fill in (0, 255):
                    fr = frame(c, i, bytes([fill]) * n).hex()
                    yield ("c01", {"f": fr, "mode": rng.choice((0, 1, 2, 3)), "pbf": rng.choice((0, 1)), "validate": rng.choice((0, 1))})
        # other pairs: lengths 0 and 2 (thorough: all 65,536 pairs)
        for k, (c, i) in enumerate(allpairs):
            for n in (0, 2):
                fr = frame(c, i, rb(n)).hex()
                if ctx.thorough:
                    for m in (0, 1, 2, 3):
                        yield ("c01", {"f": fr, "mode": m, "pbf": (k + m) & 1, "validate": 1})
                else:
                    for (m, p) in configs:
                        yield ("c01", {"f": fr, "mode": m, "pbf": p, "validate": 1})
            if not ctx.thorough or k % 16 == 0:
                fr = frame(c, i, rb(rng.randrange(3, 80))).hex()
                yield ("c01", {"f": fr, "mode": rng.choice((0, 1, 2, 3)), "pbf": rng.choice((0, 1)), "validate": rng.choice((0, 1))})
        # frames within frames: the payload is itself a complete frame (same / other class-ID, UBX, NMEA), once and twice nested
        nest = list(known[:: (7 if not ctx.thorough else 1)]) + [(rng.randrange(256), rng.randrange(256)) for _ in range(40)]
        for (c, i) in nest:
            for n in (0, 2, 9):
                inner = frame(c, i, rb(n))
                for pl in (inner, frame(c, (i + 1) % 256, rb(n)), frame(c, i, inner), inner + b"\x00", b"\x00" + inner, inner[:-1],
                           b"$GNGLL,5327.03942,N,00214.42462,W,103607.00,A,A*68\r\n"):
                    fr = frame(c, i, pl).hex()
                    for (m, p) in ((0, 1), (1, 0), (3, 1)):
                        yield ("c01", {"f": fr, "mode": m, "pbf": p, "validate": 1})
        # frames whose CHECKSUM bytes look like something else (line ends, sync characters, preambles): steered through the last two payload bytes
        for (c, i) in ((0x77, 0x01), (0x06, 0x08), (0x01, 0x22), (0x04, 0x02), (0x0A, 0x04)):
            for n in (2, 6, 20, 220):
                for tgt in STEER_TARGETS:
                    fr = frame(c, i, steer(c, i, rb(n), tgt)).hex()
                    for (m, p, v) in ((0, 1, 1), (0, 0, 0), (1, 1, 0), (3, 1, 1)):
                        yield ("c01", {"f": fr, "mode": m, "pbf": p, "validate": v})
        # very long payloads (length field up to ffff)
        big = [65535, 65534, 40000, 32769, 32768, 32767, 4096, 1000, 258, 257, 256, 255, 254]
        for n in big if ctx.thorough else [65535, 32768, 32767, 4096, 257, 256, 255]:
            for (c, i) in [(0x01, 0x07), (0x77, 0x01), (0x06, 0x8B), (0x04, 0x02)] if ctx.thorough or n < 5000 else [(0x77, 0x01), (0x04, 0x02)]:
                yield ("c01", {"f": frame(c, i, rb(n)).hex(), "mode": 0, "pbf": 1, "validate": 1})

    run_batch(ctx, MODULE, CFG, gen(), frames.OBSERVERS, sigfn, negfn)

    # spec growth (judged as notes): the mode gates of the three entry points
    run_batch(ctx, MODULE, CFG, [("gate", {"api": a, "m": m}) for a in ("reader", "parse", "message") for m in list(range(-3, 9)) + [255, 256, 1 << 30]] + [("gate", {"api": "datastream", "m": m}) for m in range(5)],
              frames.OBSERVERS, lambda o, i, ev, v: {"observer": o, "kind": v}, None)

    # spec growth (notes): the outcome CLASS of UBXReader.parse for the same frames, damaged copies of them and out-of-range modes,
    # against UbxApi!ParseOutcome (mode gate, framing decision, SETPOLL resolution, definition selection, payload walk in one function)
    def gen_api():
        for k, (o, i) in enumerate(gen()):
            if o != "c01" or k % 3 or len(i["f"]) > 1400:
                continue
            yield ("api", {"f": i["f"], "mode": i["mode"], "pbf": i["pbf"], "validate": i["validate"]})
            if k % 12 == 0:
                b = bytearray.fromhex(i["f"])
                b[-1] ^= 0x40
                yield ("api", {"f": bytes(b).hex(), "mode": i["mode"], "pbf": i["pbf"], "validate": 1})
                yield ("api", {"f": i["f"], "mode": (4, -1, 7)[k % 3], "pbf": i["pbf"], "validate": 1})

    run_batch(ctx, "T_Api", "T_Api.cfg", gen_api(), frames.OBSERVERS, lambda o, i, ev, v: {"observer": o, "kind": v}, None)

    # spec -> code: conforming payloads of every definition (TLC layouts), so that the "accepted" side covers every message type
    from ..drivers import walk

    lays = [l for l in walk.load_layouts(ctx, "MC_Walk_quick.cfg") if l["reachable"]]
    cfgdb = ctx.defs["cfgdb"]

    def gen_lay():
        for l in lays:
            for pat in ("rand", "ones", "small", "small") if not ctx.thorough else ("rand", "ones", "zero", "count", "rand", "small", "small", "small", "small"):
                P = walk.fill(l, pat, rng, cfgdb)
                fr = frame(l["cls"], l["id"], P).hex()
                yield ("c01", {"f": fr, "mode": l["m"], "pbf": 1 if l["pbf"] else 0, "validate": 1})
                if pat == "rand":
                    yield ("c01", {"f": fr, "mode": 3 if l["m"] else 0, "pbf": 0 if l["pbf"] else 1, "validate": 0})

    run_batch(ctx, MODULE, CFG, gen_lay(), frames.OBSERVERS, sigfn, negfn)

    # hostile histories: the same frames parsed right after refused constructions / failed parses / lenient parses in the same interpreter
    from ..drivers import history

    hists = history.recipes(lays, rng, walk.fill, cfgdb)

    def gen_hist():
        for k, l in enumerate(lays):
            if l["c"] != 1:
                continue
            P = walk.fill(l, "rand", rng, cfgdb)
            fr = frame(l["cls"], l["id"], P)
            h = list(hists[k % len(hists)]) if hists else []
            h.append({"op": "parse", "f": fr.hex(), "mode": l["m"], "pbf": 1, "validate": 0, "inspect": 1})
            bad = fr[:-1] + bytes([fr[-1] ^ 0x55])
            h.append({"op": "parse", "f": bad.hex(), "mode": l["m"], "pbf": 1, "validate": 0})
            yield ("c01", {"f": fr.hex(), "mode": l["m"], "pbf": 1 if l["pbf"] else 0, "validate": 1, "hist": h})

    run_batch(ctx, MODULE, CFG, gen_hist(), frames.OBSERVERS, sigfn, negfn)

    # value relations BETWEEN frames: a frame parsed right after a different frame of the same message and length that has the same
    # crc32 / adler32 (whole frame, payload) - the digests a result cache would be keyed with.  Found by birthday search
    from ..common import colliding_frames

    def gen_collide():
        total = 0
        for (c, i, n, m) in ((0x01, 0x22, 20, 0), (0x06, 0x08, 6, 1)):
            for kind, prs in sorted(colliding_frames(rng, c, i, n, want=3 if ctx.thorough else 2).items()):
                for (fa, fb) in prs:
                    for (x, y) in ((fa, fb), (fb, fa)):
                        for (p, v) in ((1, 1), (0, 1), (1, 0)):
                            total += 1
                            yield ("c01", {"f": y.hex(), "mode": m, "pbf": p, "validate": v,
                                           "hist": [{"op": "parse", "f": x.hex(), "mode": m, "pbf": bool(p) if len(y) % 2 else p, "validate": v, "inspect": 1}]})
        ctx.extra["digest_colliding_pairs"] = total

    run_batch(ctx, MODULE, CFG, gen_collide(), frames.OBSERVERS, sigfn, negfn)
    ctx.extra["hostile_histories"] = len(hists)

    # steady-state concurrency: one thread is suspended after EVERY source line of its parse / serialize / repr inside the library in
    # turn while another thread handles a different message completely (warmed-up interpreter; then once as the first use)
    def gen_race():
        one = [l for l in lays if l["c"] == 1 and l["len"] and 8 <= l["len"] <= 64 and l["pbf"]]
        if len(one) < 3:
            return
        picks = [one[0], one[len(one) // 2], one[-1], one[len(one) // 3]]
        mk = lambda l: {"f": frame(l["cls"], l["id"], walk.fill(l, "rand", rng, cfgdb)).hex(), "mode": l["m"], "pbf": 1, "validate": 1}  # noqa: E731
        parts = 8
        for (a, b, c) in ((picks[0], picks[1], picks[2]), (picks[2], picks[3], picks[0])):
            racers = [mk(a), mk(b)]
            for part in range(parts):
                yield ("race", {"_k": "race:%s:%d" % (a["name"], part), "obs": "frames:c01", "racers": racers, "after": mk(c), "ks": "all", "part": part, "parts": parts, "fresh": 0})
        yield ("race", {"_k": "race:first-use", "obs": "frames:c01", "racers": [mk(picks[1]), mk(picks[0])], "after": mk(picks[3]), "ks": "all", "part": 0, "parts": 5, "fresh": 1})

    run_batch(ctx, MODULE, CFG, list(gen_race()), frames.OBSERVERS, sigfn, negfn, parallel="threads")
    ctx.extra["definition_layout_frames"] = len(lays)
    ctx.exhaustive = False
    ctx.extra["class_id_pairs"] = len(set(known) | set(allpairs))
    ctx.assumptions += ["frames are generated with the harness' own Fletcher implementation; TLC re-derives well-formedness itself",
                        "eval(repr(msg)) is evaluated in a namespace containing only UBXMessage"]


def replay(ctx, body):
    replay_one(ctx, MODULE, CFG, frames.OBSERVERS, body, sigfn)
