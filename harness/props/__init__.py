"""Per-property check modules.  Each exposes run(ctx) and replay(ctx, body)."""

import json
import os

from ..common import MachineryError


def run_batch(ctx, module, cfg, cases, observers, sigfn, negfn=None, chunk=30000, env=None, neg_every=997, parallel=True):
    """Drive the implementation over `cases` ((observer, input) pairs, any iterable), validate every
    recorded event with the trace spec and turn failing verdicts into violations.
    negfn(event) -> corrupted copy (must be rejected by the spec) or None."""
    seen = getattr(ctx, "_seen", None)
    if seen is None:
        seen = ctx._seen = set()
    buf = []

    def flush():
        if not buf:
            return
        events = observe_all(ctx, observers, buf, parallel)
        negs = []
        negorig = []
        if negfn:
            for k in range(0, len(events), neg_every):
                n = negfn(events[k])
                if n is not None:
                    n = dict(n)
                    n["neg"] = 1
                    negs.append(n)
                    negorig.append(k)
        verdicts = ctx.validate(module, cfg, events + negs, env=env, label=module, nreal=len(events))
        # a corrupted copy of an event the spec accepted ("ok") must be rejected (binding / vacuity control)
        for k, n, v in zip(negorig, negs, verdicts[len(events):]):
            if verdicts[k] == "ok":
                ctx.negative_controls([v], [n])
        for (o, i), ev, v in zip(buf, events, verdicts):
            ctx.evaluations += 1
            _track(ctx, i, v)
            if v == "triv":
                continue
            if v.startswith("EXT:"):
                # behaviour the specification covers beyond the listed properties: a divergence is a NOTE, never a violation
                ctx.ext_divergence(v, {"observer": o, "input": i})
                continue
            if v == "ok":
                h = hash((o, i["_k"])) if isinstance(i, dict) and "_k" in i else hash(json.dumps([o, i], sort_keys=True))
                if h not in seen:
                    seen.add(h)
                    ctx.nontrivial += 1
                if len(ctx.samples) < 4:
                    ctx.sample({"observer": o, "input": i, "event": _clip(ev), "verdict": v})
                continue
            ctx.violation(v, sigfn(o, i, ev, v), {"observer": o, "input": i})
        del buf[:]

    size = 0
    for c in cases:
        buf.append(c)
        size += (40 * len(c[1].get("P", "")) + 2000) if isinstance(c[1], dict) and "lay" in c[1] else 4 * len(json.dumps(c[1])) + 200  # rough size of the recorded event
        if len(buf) >= chunk or size > 24_000_000:
            flush()
            size = 0
    flush()


OPT_ENVS = ({}, {"PYTHONHASHSEED": "1", "TZ": "Pacific/Chatham", "LC_ALL": "C"}, {"PYTHONHASHSEED": "4242", "TZ": "America/St_Johns", "PYTHONUTF8": "0", "LANG": "POSIX"})


def run_opt(ctx, module, cfg, obs, inner_cases, sigfn, flags_list=(("-O",), ("-OO",)), env=None, parts=6):
    """the cases of observer `obs` ("driver:key") evaluated in child interpreters started with other interpreter options
    (drivers/optchild), judged by the same acceptor; violations are reported per single case (replayable)"""
    from concurrent.futures import ThreadPoolExecutor

    from ..drivers.optchild import obs_opt

    inner_cases = list(inner_cases)
    if not inner_cases:
        return
    key = obs.split(":")[1]
    for fi, flags in enumerate(flags_list):
        cenv = OPT_ENVS[(fi + 1) % len(OPT_ENVS)]  # (each interpreter-option run also gets another hash seed / time zone / locale)
        step = max(1, -(-len(inner_cases) // parts))
        chunks = [inner_cases[k:k + step] for k in range(0, len(inner_cases), step)]
        with ThreadPoolExecutor(max_workers=parts) as ex:
            res = list(ex.map(lambda ch: obs_opt({"obs": obs, "cases": ch, "flags": list(flags), "env": cenv}), chunks))
        evs = [e for r in res for e in r]
        if len(evs) != len(inner_cases):
            raise MachineryError("opt child returned %d events for %d cases" % (len(evs), len(inner_cases)))
        verdicts = ctx.validate(module, cfg, evs, env=env, label=module + "-opt", nreal=len(evs))
        for i, ev, v in zip(inner_cases, evs, verdicts):
            ctx.evaluations += 1
            _track(ctx, i, v)
            inp = {"obs": obs, "cases": [i], "flags": list(flags), "env": cenv}
            if v == "triv":
                continue
            if v.startswith("EXT:"):
                ctx.ext_divergence(v, {"observer": "opt", "input": inp})
            elif v == "ok":
                ctx.nontrivial += 1
            else:
                ctx.violation(v, sigfn(key, i, ev, v), {"observer": "opt", "input": inp})
    ctx.extra["interpreter_option_runs"] = ctx.extra.get("interpreter_option_runs", 0) + len(inner_cases) * len(flags_list)


def _track(ctx, i, v):
    """vacuity control per definition: which (mode, definition) pairs were offered to the judge, and for which of them at least one
    case was actually judged (verdict other than "triv")"""
    if not isinstance(i, dict):
        return
    lay = i.get("lay")
    if isinstance(lay, dict) and "name" in lay:
        key = "%s %s" % (("GET", "SET", "POLL", "?")[lay.get("m", 3) if lay.get("m", 3) in (0, 1, 2) else 3], lay["name"])
    elif "name" in i and "m" in i:
        key = "%s %s" % (("GET", "SET", "POLL", "?")[i["m"] if i["m"] in (0, 1, 2) else 3], i["name"])
    else:
        return
    seen = ctx.__dict__.setdefault("_defs_seen", set())
    judged = ctx.__dict__.setdefault("_defs_judged", set())
    seen.add(key)
    if v != "triv":
        judged.add(key)
    ctx.extra["definitions_offered"] = len(seen)
    ctx.extra["definitions_never_judged"] = sorted(seen - judged)


_OBS = None


def _work(chunk):
    return [_OBS[o](i) for o, i in chunk]


def observe_all(ctx, observers, buf, parallel=True):
    """run the observers over the cases; large batches are spread over worker processes (fork)"""
    global _OBS
    if parallel == "threads":
        # observers that only wait for a child process: threads are enough
        from concurrent.futures import ThreadPoolExecutor

        with ThreadPoolExecutor(max_workers=12) as ex:
            return list(ex.map(lambda c: observers[c[0]](c[1]), buf))
    if not parallel or len(buf) < 1500:
        return [observers[o](i) for o, i in buf]
    import multiprocessing as mp

    _OBS = observers
    n = min(14, (os.cpu_count() or 2))
    step = max(50, len(buf) // (n * 6))
    chunks = [buf[k:k + step] for k in range(0, len(buf), step)]
    with mp.get_context("fork").Pool(n) as pool:
        res = pool.map(_work, chunks)
    out = []
    for r in res:
        out.extend(r)
    return out


def _clip(ev):
    out = {}
    for k, v in ev.items():
        if isinstance(v, list) and len(v) > 48:
            out[k] = v[:48] + ["...(%d)" % len(v)]
        else:
            out[k] = v
    return out


def replay_one(ctx, module, cfg, observers, body, sigfn, env=None):
    case = body["case"]
    o, i = case["observer"], case["input"]
    if o not in observers:
        raise MachineryError("unknown observer %s in replay file" % o)
    ev = observers[o](i)
    v = ctx.validate(module, cfg, [ev], env=env)[0]
    ctx.evaluations += 1
    print("replay verdict: %s" % v)
    if v.startswith("EXT:"):
        ctx.ext_divergence(v, case)
    elif v not in ("ok", "triv"):
        if o == "opt":  # (signatures are those of the wrapped observer's single case)
            ctx.violation(v, sigfn(i["obs"].split(":")[1], i["cases"][0], ev, v), case)
        else:
            ctx.violation(v, sigfn(o, i, ev, v), case)
    else:
        ctx.nontrivial += 1 if v == "ok" else 0
    ctx.sample({"observer": o, "input": i, "verdict": v})
