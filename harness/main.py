"""Entry point:  ./check <ID> <quick|thorough> | ./check <ID> --replay <path> | ./check --setup"""

import importlib
import json
import os
import sys
import traceback

from . import common, tlc
from .common import MachineryError

PROPS = ["C%02d" % i for i in range(1, 19)]


def setup():
    ok = True
    for tool in ("java", "python3-vt"):
        import shutil

        if not shutil.which(tool):
            print("missing tool", tool)
            ok = False
    mods = sorted(f[:-4] for f in os.listdir(tlc.SPEC) if f.endswith(".tla") and f != "MC_SocketInd.tla")  # (Apalache module: not on SANY's path)
    for m in mods:
        good, out = tlc.sany(m)
        print("sany %-16s %s" % (m, "ok" if good else "FAILED"))
        if not good:
            print(out)
            ok = False
    try:
        common.setup_repo_path()
    except Exception as ex:  # noqa: BLE001
        print("cannot import pyubx2 from the working tree:", ex)
        ok = False
    return 0 if ok else 2


def main(argv):
    if len(argv) >= 1 and argv[0] == "--setup":
        return setup()
    if len(argv) < 2:
        print(__doc__)
        return 2
    prop = argv[0].upper()
    if prop not in PROPS:
        print("unknown property", prop)
        return 2
    replay = None
    tier = os.environ.get("VERIF_TIER", "quick")
    if argv[1] == "--replay":
        replay = argv[2]
    else:
        tier = argv[1]
    if tier not in ("quick", "thorough"):
        print("tier must be quick or thorough")
        return 2
    os.environ.setdefault("PYTHONHASHSEED", "0")
    import logging

    logging.disable(logging.CRITICAL)  # the reader logs rejected frames when no handler is given; not an observable here
    try:
        common.setup_repo_path()
        mod = importlib.import_module("harness.props." + prop.lower())
        ctx = common.Ctx(prop, tier)
        try:
            if replay:
                with open(replay) as f:
                    body = json.load(f)
                mod.replay(ctx, body)
            else:
                mod.run(ctx)
            return ctx.finish()
        finally:
            import shutil

            shutil.rmtree(ctx.work, ignore_errors=True)
    except MachineryError as ex:
        print("MACHINERY-FAILURE property=%s: %s" % (prop, ex))
        return 2
    except Exception:  # noqa: BLE001
        print("MACHINERY-FAILURE property=%s: unexpected harness error" % prop)
        traceback.print_exc()
        return 2


if __name__ == "__main__":
    sys.exit(main(sys.argv[1:]))
