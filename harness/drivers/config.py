"""Configuration-database drivers (C14)."""

import struct

from .frames import BAD


def classify(ex):
    import pyubx2.exceptions as ube

    if isinstance(ex, ube.UBXMessageError):
        return "ubxmsg"
    if isinstance(ex, (ube.UBXTypeError, ube.UBXParseError, ube.UBXStreamError)):
        return "ubxother"
    return "foreign:" + type(ex).__name__


def value_bytes(t, v):
    """bytes a python value denotes for a configuration type (independent of pyubx2)"""
    kind, n = t[:1], int(t[1:4])
    try:
        if kind in "UEL":
            return list(int(v).to_bytes(n, "little", signed=False)) if type(v) is int else BAD
        if kind == "I":
            return list(int(v).to_bytes(n, "little", signed=True)) if type(v) is int else BAD
        if kind == "R":
            return list(struct.pack("<f" if n == 4 else "<d", v))
        if kind in "XC":
            return list(v) if isinstance(v, (bytes, bytearray)) else BAD
    except (OverflowError, struct.error, TypeError):
        return BAD
    return BAD


def obs_helper(case):
    """case: {fn, a, b, items: [{byname, name, key(int), t, v (python literal repr)}]}"""
    from pyubx2 import UBXMessage

    items_abs = []
    args = []
    for it in case["items"]:
        v = eval(it["v"], {"__builtins__": {}}) if it.get("v") is not None else None  # noqa: S307 - literals written by the harness
        k = it["name"] if it["byname"] else it["key"]
        args.append((k, v) if case["fn"] == "config_set" else k)
        items_abs.append({"byname": 1 if it["byname"] else 0, "name": it.get("name", ""),
                          "key": list(int(it["key"]).to_bytes(4, "little")),
                          "v": value_bytes(it["t"], v) if case["fn"] == "config_set" else []})
    ev = {"kind": "helper", "fn": case["fn"], "a": case["a"], "b": case["b"], "items": items_abs, "out": "", "P": [], "clsid": []}
    try:
        msg = getattr(UBXMessage, case["fn"])(case["a"], case["b"], args)
        ev["out"] = "msg"
        ev["P"] = list(msg.payload or b"")
        ev["clsid"] = list(msg.msg_cls) + list(msg.msg_id)
    except Exception as ex:  # noqa: BLE001
        ev["out"] = classify(ex)
    return ev


def obs_lookup(case):
    from pyubx2 import cfgkey2name, cfgname2key

    if case["dir"] == "name2key":
        ev = {"kind": "lookup", "dir": "name2key", "name": case["name"], "out": "", "key": [], "t": "", "backname": ""}
        try:
            k, t = cfgname2key(case["name"])
            ev["out"] = "ok"
            ev["key"] = list(int(k).to_bytes(4, "little"))
            ev["t"] = str(t)
            try:
                ev["backname"] = str(cfgkey2name(k)[0])
            except Exception as ex:  # noqa: BLE001
                ev["backname"] = "err:" + type(ex).__name__
        except Exception as ex:  # noqa: BLE001
            ev["out"] = classify(ex)
        return ev
    key = case["key"]
    ev = {"kind": "lookup", "dir": "key2name", "key": list(int(key).to_bytes(4, "little")), "out": "", "name": "", "t": "X000"}
    try:
        n, t = cfgkey2name(key)
        ev["out"] = "ok"
        ev["name"] = str(n)
        ev["t"] = str(t)
    except Exception as ex:  # noqa: BLE001
        ev["out"] = classify(ex)
    return ev


OBSERVERS = {"helper": obs_helper, "lookup": obs_lookup}
