"""Scalar codec and helper drivers (C18)."""

import math
import struct
from datetime import datetime, timedelta

BAD = [-1]


def limbs(n):
    n = abs(int(n))
    out = []
    while n:
        out.append(n & 0xFF)
        n >>= 8
    return out


def obs_int(case):
    from pyubx2 import bytes2val, val2bytes

    t, v = case["t"], int(case["v"])
    ev = {"kind": "int", "t": t, "w": int(t[1:4]), "signed": 1 if t[0] == "I" else 0, "neg": 1 if v < 0 else 0, "mag": limbs(v),
          "out": "", "bytes": [], "backout": "", "backneg": 0, "backmag": []}
    kwform = v % 2 == 1  # (every other call names its parameters, as the documentation does)
    try:
        b = val2bytes(val=v, att=t) if kwform else val2bytes(v, t)
        ev["out"] = "ok"
        ev["bytes"] = list(b) if isinstance(b, (bytes, bytearray)) else BAD
    except Exception:  # noqa: BLE001 - "values outside the range are refused": any exception is a refusal
        ev["out"] = "refused"
        return ev
    try:
        back = bytes2val(valb=bytes(b), att=t) if kwform else bytes2val(bytes(b), t)
        ev["backout"] = "ok" if type(back) is int else "notint"
        if type(back) is int:
            ev["backneg"] = 1 if back < 0 else 0
            ev["backmag"] = limbs(back)
    except Exception as ex:  # noqa: BLE001
        ev["backout"] = type(ex).__name__
    return ev


def obs_dec(case):
    from pyubx2 import bytes2val, val2bytes

    t, b = case["t"], bytes.fromhex(case["b"])
    ev = {"kind": "dec", "t": t, "signed": 1 if t[0] == "I" else 0, "bytes": list(b), "out": "", "neg": 0, "mag": [], "bytes2": []}
    try:
        v = bytes2val(b, t)
        if type(v) is not int:
            ev["out"] = "notint"
            return ev
        ev["neg"] = 1 if v < 0 else 0
        ev["mag"] = limbs(v)
        ev["bytes2"] = list(val2bytes(v, t))
        ev["out"] = "ok"
    except Exception as ex:  # noqa: BLE001
        ev["out"] = type(ex).__name__
    return ev


def obs_opaque(case):
    from pyubx2 import bytes2val, val2bytes

    t, b = case["t"], bytes.fromhex(case["b"])
    ev = {"kind": "opaque", "t": t, "w": int(t[1:4]), "bytes": list(b), "out": "", "bytes2": [], "nan": 0}
    try:
        v = bytes2val(b, t)
        if isinstance(v, float) and math.isnan(v):
            ev["nan"] = 1
        b2 = val2bytes(v, t)
        ev["bytes2"] = list(b2)
        ev["out"] = "ok"
    except Exception as ex:  # noqa: BLE001
        ev["out"] = type(ex).__name__
    return ev


def obs_wide(case):
    """a byte string / array of the WRONG length for a fixed-width X / A type: outside the type's range, to be refused"""
    from pyubx2 import val2bytes

    t, b = case["t"], bytes.fromhex(case["b"])
    ev = {"kind": "wide", "t": t, "w": int(t[1:4]), "n": len(b), "out": "", "bytes2": []}
    try:
        r = val2bytes(list(b) if t[0] == "A" else b, t)
        ev["out"] = "ok"
        ev["bytes2"] = list(r) if isinstance(r, (bytes, bytearray)) else [-1]
    except Exception as ex:  # noqa: BLE001
        ev["out"] = type(ex).__name__
    return ev


def obs_arr(case):
    """an array value refused because of ONE element (not the first), then a valid array of the same type: the refusal leaves nothing
    behind - the valid one round-trips (judged as an ordinary round trip)"""
    from pyubx2 import val2bytes

    t, b = case["t"], bytes.fromhex(case["b"])
    bad = list(b)
    if bad:
        bad[case["bad"] % len(bad)] = (256, -1, "x", None, 1.5)[case["bad"] % 5]
        try:
            val2bytes(bad, t)
        except Exception:  # noqa: BLE001 - meant to be refused
            pass
    return obs_opaque(case)


def obs_text(case):
    """variable-length text (CH) and fixed character fields: bytes -> value -> bytes must be the identity on ASCII text, whatever
    the text looks like (backslashes, escape-like sequences, quotes ...)"""
    from pyubx2 import bytes2val, val2bytes

    t, b = case["t"], bytes.fromhex(case["b"])
    ev = {"kind": "opaque", "t": t, "w": len(b), "bytes": list(b), "out": "", "bytes2": [], "nan": 0}
    try:
        v = bytes2val(b, t)
        ev["bytes2"] = list(val2bytes(v, t))
        ev["out"] = "ok"
    except Exception as ex:  # noqa: BLE001
        ev["out"] = type(ex).__name__
    return ev


def obs_nom(case):
    from pyubx2 import nomval, val2bytes

    t = case["t"]
    ev = {"kind": "nom", "t": t, "w": 0 if t == "CH" else int(t[1:4]), "out": "", "bytes": [], "again": []}
    try:
        v = nomval(t)
        ev["bytes"] = list(val2bytes(v, t))
        # hostile caller: overwrite in place whatever mutable value was handed out, then ask again
        if isinstance(v, (list, bytearray)):
            for j in range(len(v)):
                v[j] = 0xA5
        ev["again"] = list(val2bytes(nomval(t), t))
        ev["out"] = "ok"
    except Exception as ex:  # noqa: BLE001
        ev["out"] = type(ex).__name__
    return ev


def obs_ck(case):
    from pyubx2 import calc_checksum, isvalid_checksum

    d = bytes.fromhex(case["d"])
    ck = calc_checksum(content=d) if len(d) % 2 else calc_checksum(d)
    good = b"\xb5\x62" + d + ck
    bad = good[:-1] + bytes((good[-1] ^ (1 + case.get("flip", 0) % 255),))
    return {"kind": "ck", "data": list(d), "ck": list(ck), "validgood": 1 if isvalid_checksum(good) else 0, "validbad": 1 if isvalid_checksum(bad) else 0}


E0 = datetime(1980, 1, 6)


def obs_time(case):
    from pyubx2 import itow2utc, utc2itow

    days, sod, ms = case["days"], case["sod"], case["ms"]
    # the conversions are about UTC: the time zone of the process must not matter (rotated here; POSIX TZ strings need no database)
    import os
    import time as _time

    tz = ("UTC0", "CET-1CEST,M3.5.0,M10.5.0/3", "EST5EDT,M3.2.0,M11.1.0", "NPT-5:45")[(days + sod) % 4]
    if os.environ.get("TZ") != tz and hasattr(_time, "tzset"):
        os.environ["TZ"] = tz
        _time.tzset()
    utc = E0 + timedelta(days=days, seconds=sod, milliseconds=ms)
    wno, itow = utc2itow(utc)
    t1 = itow2utc(case["itowin"])
    t2 = itow2utc(itow)
    return {"kind": "time", "days": days, "sod": sod, "ms": ms, "wno": int(wno), "itow": int(itow), "itowin": case["itowin"],
            "tod": [t1.hour, t1.minute, t1.second, t1.microsecond], "tod2": [t2.hour, t2.minute, t2.second, t2.microsecond]}


def obs_bits(case):
    from pyubx2 import get_bits

    bf = bytes.fromhex(case["bf"])
    out = get_bits(bitfield=bf, bitmask=case["mask"]) if case["mask"] % 2 else get_bits(bf, case["mask"])
    return {"kind": "bits", "bf": list(bf), "mask": case["mask"], "out": int(out)}


def obs_prot(case):
    from pyubx2 import protocol

    out = []
    b1 = case["b1"]
    # one event per byte pair; packed 256 per case to keep the driver cheap
    # the protocol is a function of the two header bytes: whatever follows them (nothing, zeros, text with non-ASCII bytes, a line end)
    tails = (b"\x00\x00", b"", b"TXT,01,01,02,Antenna temp 25\xb0C*8B\r\n", b"\xff\xfe\xb5\x62", b"\r\n")
    return [{"kind": "prot", "b1": b1, "b2": b2, "out": int(protocol(raw=bytes((b1, b2)) + tails[(b1 + b2) % len(tails)]) if b2 % 2 else protocol(bytes((b1, b2)) + tails[(b1 + b2) % len(tails)]))} for b2 in range(256)]


def obs_att(case):
    from pyubx2 import att2idx, att2name

    name = case["name"]
    # (every other call names the parameter, as the documentation does: att2idx(att=...), att2name(att=...))
    kwform = (case["i"] + case["j"]) % 2 == 1
    idx = att2idx(att=name) if kwform else att2idx(name)
    return {"kind": "att", "base": case["base"], "i": case["i"], "j": case["j"], "more": list(case.get("more", ())), "name": name,
            "outname": att2name(att=name) if kwform else att2name(name),
            "outidx": [idx] if isinstance(idx, int) else list(idx)}


def obs_sphp(case):
    from pyubx2 import val2sphp

    N = case["N"]
    sp, hp = val2sphp(N * 1e-9, 1e-7)
    return {"kind": "sphp", "N": N, "sp": int(sp), "hp": int(hp)}


def obs_sphp2(case):
    """val = M tenths of a high-precision unit (M * 1e-10 with scale 1e-7), M % 10 != 5: no rounding tie"""
    from pyubx2 import val2sphp

    M = case["M"]
    sp, hp = val2sphp(M * 1e-10, 1e-7)
    return {"kind": "sphp2", "M": M, "sp": int(sp), "hp": int(hp)}


OBSERVERS = {"text": obs_text, "sphp2": obs_sphp2, "int": obs_int, "dec": obs_dec, "opaque": obs_opaque, "nom": obs_nom, "ck": obs_ck, "time": obs_time, "bits": obs_bits,
             "att": obs_att, "sphp": obs_sphp, "wide": obs_wide, "arr": obs_arr}
from .optchild import obs_opt_single  # noqa: E402

OBSERVERS["opt"] = obs_opt_single


# ---------------------------------------------------------------------------------------------------------------------
# helpers no listed property names (spec growth; judged as EXT:* notes)
def obs_twos(case):
    from pyubx2 import val2signmag, val2twoscomp

    t = "U%03d" % case["n"]
    return {"kind": "twos", "val": case["val"], "n": case["n"], "out": int(val2twoscomp(case["val"], t)), "outsm": int(val2signmag(case["val"], t))}


def obs_esc(case):
    from pyubx2 import escapeall

    b = bytes.fromhex(case["b"])
    return {"kind": "esc", "b": list(b), "out": escapeall(b)}


def obs_hext(case):
    from pyubx2 import hextable

    raw = bytes.fromhex(case["raw"])
    return {"kind": "hext", "raw": list(raw), "cols": case["cols"], "out": hextable(raw, case["cols"])}


def obs_dop(case):
    from pyubx2 import dop2str

    return {"kind": "dop", "h": case["h"], "out": dop2str(case["h"] / 100)}


def obs_lookup(case):
    from pyubx2 import gnss2str, gpsfix2str

    f = gnss2str if case["which"] == "gnss" else gpsfix2str
    return {"kind": "lookup", "which": case["which"], "x": case["x"], "out": str(f(case["x"]))}


def obs_kfv(case):
    from pyubx2 import key_from_val

    d = {k: v for k, v in case["pairs"]}
    try:
        out = key_from_val(d, case["v"])
    except KeyError:
        out = ""
    return {"kind": "kfv", "pairs": [{"k": k, "v": v} for k, v in d.items()], "v": case["v"], "out": out}


class _Mon:
    pass


def obs_mon(case):
    from pyubx2 import process_monver

    m = _Mon()
    pad = lambda s, n: s.encode() + bytes(max(0, n - len(s)))  # noqa: E731
    m.swVersion = pad(case["sw"], 30)
    m.hwVersion = pad(case["hw"], 10)
    for k, e in enumerate(case["exts"]):
        setattr(m, "extension_%02d" % (k + 1), pad(e, 30))
    out = process_monver(m)
    return {"kind": "mon", "sw": case["sw"], "hw": case["hw"], "exts": case["exts"], "out": {k: str(v) for k, v in out.items()}}


def obs_msgstr(case):
    from pyubx2 import msgstr2bytes

    try:
        c, i = msgstr2bytes(case["cls"], case["id"])
        out = [c[0], i[0]] if len(c) == 1 and len(i) == 1 else [-1]
    except Exception:  # noqa: BLE001
        out = []
    return {"kind": "msgstr", "cls": case["cls"], "id": case["id"], "out": out}


def obs_msgcls(case):
    from pyubx2 import msgclass2bytes

    c, i = msgclass2bytes(case["c"], case["i"])
    return {"kind": "msgcls", "c": case["c"], "i": case["i"], "out": [c[0], i[0]] if len(c) == 1 and len(i) == 1 else [-1]}


def obs_attsiz(case):
    from pyubx2 import attsiz, atttyp

    t = case["t"]
    return {"kind": "attsiz", "t": t, "w": 0 if t == "CH" else int(t[1:4]), "typ": atttyp(t), "siz": int(attsiz(t))}


OBSERVERS.update({"twos": obs_twos, "esc": obs_esc, "hext": obs_hext, "dop": obs_dop, "lookup": obs_lookup, "kfv": obs_kfv,
                  "mon": obs_mon, "msgstr": obs_msgstr, "msgcls": obs_msgcls, "attsiz": obs_attsiz})
