"""
Observers for the frame layer: each calls the public API once and records what it returned.
No judgement is made here (TLC does that); values that cannot be obtained are recorded as the
sentinel [-1] / -1 / "err:<Type>" so that they can never equal an expected value.
"""

from ..common import frame
from . import envrot, history

BAD = [-1]


def classify_exc(ex):
    import pyubx2.exceptions as ube

    if isinstance(ex, ube.UBXParseError):
        return "ubxparse"
    if isinstance(ex, (ube.UBXMessageError, ube.UBXTypeError, ube.UBXStreamError)):
        return "ubx"
    return "foreign:" + type(ex).__name__


def _bytes_or_bad(fn):
    try:
        v = fn()
        if v is None:
            return []
        if isinstance(v, (bytes, bytearray)):
            return list(v)
        return BAD
    except Exception:  # noqa: BLE001 - recorded, judged by the spec
        return BAD


def parse_call(f, mode, pbf, validate, bytearray_ok=False):
    from pyubx2 import UBXReader

    if len(f) % 2:
        pbf = bool(pbf)  # the documented type of parsebitfield is bool; both spellings are exercised
    try:
        with envrot.hostile(envrot.key(bytes(f), mode, validate)):
            if len(f) % 3 == 1:
                # a caller that owns an earlier result of the same call and has changed its mutable values in place
                try:
                    envrot.taint(UBXReader.parse(bytes(f), msgmode=mode, validate=validate, parsebitfield=pbf))
                except Exception:  # noqa: BLE001 - the observed call below reports it
                    pass
            if bytearray_ok and len(f) == 8 and (f[2] + f[3]) % 2:
                # a payload-less frame still in the bytearray it was received into (C01 only: the library accepts such a frame, and
                # everything C01 speaks of works on the result; its identity / printed form do not - bytearray is not the documented
                # argument type, so no other check uses this form)
                m = UBXReader.parse(bytearray(f), msgmode=mode, validate=validate, parsebitfield=pbf)
            elif len(f) % 5 == 3:
                # the documented static method, reached through an instance (as application code holding a reader does)
                import io

                m = UBXReader(io.BytesIO(b""), validate=1 - (validate & 1)).parse(bytes(f), msgmode=mode, validate=validate, parsebitfield=pbf)
            elif len(f) % 5 == 2:
                # all arguments positionally; the frame as a bytes subclass, the mode as a member of an IntEnum
                m = UBXReader.parse(envrot.FrameBytes(f), envrot.mode_arg(mode, 5), validate, pbf)
            else:
                m = UBXReader.parse(bytes(f), msgmode=mode, validate=validate, parsebitfield=pbf)
    except Exception as ex:  # noqa: BLE001
        return None, classify_exc(ex)
    if m is None:
        return None, "none"
    try:
        m = envrot.twin(m, envrot.key(bytes(f), mode, validate))
    except Exception as ex:  # noqa: BLE001 - a message that cannot be copied / pickled: reported like a failed call
        return None, "twin:" + type(ex).__name__
    return m, "msg"


def obs_c01(case):
    """case: {f: hex, mode, pbf, validate}"""
    from pyubx2 import UBXMessage

    f = bytes.fromhex(case["f"])
    history.run(case.get("hist"))
    m, out = parse_call(f, case["mode"], case["pbf"], case["validate"], bytearray_ok=True)
    ev = {"prop": "C01", "kind": "parse", "f": list(f), "out": out, "mode": case["mode"], "pbf": case["pbf"],
          "validate": case["validate"], "ser": BAD, "cls": BAD, "mid": BAD, "length": -1, "payload": BAD, "reprser": BAD,
          "repr": "", "reprok": 0, "mmode": -1}
    if m is not None:
        ev["ser"] = _bytes_or_bad(m.serialize)
        ev["cls"] = _bytes_or_bad(lambda: m.msg_cls)
        ev["mid"] = _bytes_or_bad(lambda: m.msg_id)
        try:
            ln = m.length
            ev["length"] = ln if isinstance(ln, int) and 0 <= ln < 2 ** 31 else -1
        except Exception:  # noqa: BLE001
            ev["length"] = -1
        ev["payload"] = _bytes_or_bad(lambda: m.payload)
        ev["reprser"] = _bytes_or_bad(lambda: eval(repr(m), {"UBXMessage": UBXMessage, "__builtins__": {"bytearray": bytearray, "bytes": bytes}}).serialize())  # noqa: S307
        # spec growth: the text itself (short frames only: TLC strings are built character by character)
        try:
            s = repr(m) if len(f) <= 600 else ""
            ok = bool(s) and s.isascii() and not (len(f) == 8 and (f[2] + f[3]) % 2)  # (not for the bytearray form: its class / ID print as bytearray(...))
            ev["repr"], ev["reprok"], ev["mmode"] = (s if ok else ""), (1 if ok else 0), (int(m.msgmode) if isinstance(m.msgmode, int) else -1)
        except Exception:  # noqa: BLE001
            ev["repr"], ev["reprok"], ev["mmode"] = "", 0, -1
    return ev


def public_attrs(m):
    """ordered public instance attributes as [name, repr] pairs (used only for equality)."""
    try:
        d = vars(m)
    except TypeError:
        return [["?", "no-dict"]]
    return [[k, repr(v)] for k, v in d.items() if not k.startswith("_")]


def attrs_digest(m):
    """projection of the ordered public attributes to a digest (equal digests <=> equal attributes)"""
    import hashlib

    a = public_attrs(m)
    return [str(len(a)), hashlib.sha256(repr(a).encode()).hexdigest()]


def obs_c05_parse(case):
    f = bytes.fromhex(case["f"])
    history.run(case.get("hist"))
    pbf = case.get("pbf", 1)
    if case.get("lenient_first"):
        # the verdict under VALCKSUM must not depend on an earlier lenient (VALNONE) parse of the same bytes
        parse_call(f, case.get("mode", 0), pbf, 0)
    m, out = parse_call(f, case.get("mode", 0), pbf, 1)
    return {"prop": "C05", "kind": "parse", "f": list(f), "out": out}


def obs_c05_valnone(case):
    f = bytes.fromhex(case["f"])
    g = bytes.fromhex(case["g"])
    mf, outf = parse_call(f, case.get("mode", 0), case.get("pbf", 1), 0)
    mg, outg = parse_call(g, case.get("mode", 0), case.get("pbf", 1), 0)
    # "the same attributes": the public ones by digest; all of them (the private ones too) through what the message serialises to
    sersame = -1
    if mf is not None and mg is not None:
        try:
            sersame = 1 if mg.serialize() == mf.serialize() else 0
        except Exception:  # noqa: BLE001
            sersame = 0
    return {"prop": "C05", "kind": "valnone", "f": list(f), "g": list(g), "outf": outf, "outg": outg,
            "attrsf": attrs_digest(mf) if mf is not None else [],
            "attrsg": attrs_digest(mg) if mg is not None else [], "sersame": sersame}


_HANGS = 0


class ObserverTimeout(BaseException):
    """raised by the SIGALRM watchdog inside an observer (pure-Python hangs are interruptible)"""


def _alarm(signum, frame):
    raise ObserverTimeout()


def obs_c08(case):
    """case: {f: hex, mode, pbf, validate}; parse + inspect everything; watchdog 20 s"""
    import signal

    f = bytes.fromhex(case["f"])
    ev = {"prop": "C08", "kind": "parse8", "f": list(f) if len(f) <= 64 else list(f[:64]), "flen": len(f), "out": "", "inspect": []}
    old = signal.signal(signal.SIGALRM, _alarm)
    global _HANGS
    signal.alarm(case.get("timeout", 20 if _HANGS == 0 else 2))
    try:
        m, out = parse_call(f, case["mode"], case["pbf"], case["validate"])
        ev["out"] = out
        if m is not None:
            ops = (("str", lambda: str(m)), ("repr", lambda: repr(m)), ("identity", lambda: m.identity), ("length", lambda: m.length),
                   ("payload", lambda: m.payload), ("msgmode", lambda: m.msgmode), ("serialize", lambda: m.serialize()))
            for name, fn in ops:
                try:
                    with envrot.hostile(envrot.key(f, len(name)), decimals=False):
                        fn()
                    ev["inspect"].append([name, "ok"])
                except ObserverTimeout:
                    raise
                except Exception as ex:  # noqa: BLE001
                    ev["inspect"].append([name, type(ex).__name__])
    except ObserverTimeout:
        ev["out"] = "hang"
        _HANGS += 1
    finally:
        signal.alarm(0)
        signal.signal(signal.SIGALRM, old)
    return ev


def obs_api(case):
    """spec growth (UbxApi!ParseOutcome): the class of what UBXReader.parse returns / raises for a frame and a set of options"""
    from pyubx2 import UBXMessage, UBXReader

    f = bytes.fromhex(case["f"])
    try:
        m = UBXReader.parse(f, msgmode=case["mode"], validate=case["validate"], parsebitfield=case["pbf"])
        out = "message" if isinstance(m, UBXMessage) else type(m).__name__
    except Exception as ex:  # noqa: BLE001
        out = type(ex).__name__
    return {"prop": "EXT-api", "f": list(f), "mode": case["mode"], "validate": case["validate"], "pbf": case["pbf"], "out": out}


def obs_gate(case):
    """spec growth: what each entry point makes of a msgmode value (everything else about the call is valid)"""
    import io

    from pyubx2 import UBXMessage, UBXReader

    api, m = case["api"], case["m"]
    if api == "datastream":
        # what the reader reads from, for five kinds of stream object: m = index
        import socket as _socket

        from pyubx2.socket_wrapper import SocketWrapper

        class _TLS(_socket.socket):
            def read(self, n=1024):
                return b""

            def recv(self, n, *a):
                return b""

        class _Plain(_socket.socket):
            def recv(self, n, *a):
                return b""

        class _DuckRecv:
            def recv(self, n):
                return b""

        class _DuckBoth:
            def recv(self, n):
                return b""

            def read(self, n):
                return b""

        obj, kind = ((io.BytesIO(b""), [0, 1, 0]), (_Plain(), [1, 0, 1]), (_TLS(), [1, 1, 1]), (_DuckRecv(), [0, 0, 1]), (_DuckBoth(), [0, 1, 1]))[m % 5]
        try:
            ds = UBXReader(obj).datastream
            out = "same" if ds is obj else "wrapper" if isinstance(ds, SocketWrapper) else "other"
        except Exception as ex:  # noqa: BLE001
            out = type(ex).__name__
        finally:
            if hasattr(obj, "close"):
                obj.close()
        return {"prop": "EXT-gate", "api": api, "m": m, "kind": kind, "out": out}
    try:
        if api == "reader":
            UBXReader(io.BytesIO(b""), msgmode=m)
        elif api == "parse":
            UBXReader.parse(frame(0x0A, 0x04, b""), msgmode=m)
        else:
            UBXMessage(b"\x0a", b"\x04", m)
        out = "ok"
    except Exception as ex:  # noqa: BLE001
        out = type(ex).__name__
    return {"prop": "EXT-gate", "api": api, "m": m, "kind": [0, 0, 0], "out": out}


from .race import obs_race  # noqa: E402

OBSERVERS = {"c08": obs_c08, "c01": obs_c01, "c05_parse": obs_c05_parse, "c05_valnone": obs_c05_valnone, "race": obs_race, "gate": obs_gate, "api": obs_api}
