"""
Reader drivers: run the real UBXReader over a recording stream and log, in order, every call it
makes on the stream, every item it returns, every error-handler call, and how the run ended.
Nothing inside pyubx2 is touched: the recording stream, the handler and the iterator protocol are
the boundary objects a user hands to / gets from the library.
"""

import hashlib
import json
import os

POOLS = None
_HANGS = 0  # hangs seen by this process: after the first one the watchdog becomes impatient


def pools():
    global POOLS
    if POOLS is None:
        with open(os.path.join(os.path.dirname(os.path.dirname(__file__)), "data", "pools.json")) as f:
            p = json.load(f)
        POOLS = {k: [bytes.fromhex(x) for x in v] for k, v in p.items()}
    return POOLS


class HangGuard(BaseException):
    """raised by the recording stream when the reader makes absurdly many calls (hang detection)"""


class RecStream:
    def __init__(self, data, events, maxcalls=None, bursts=(), pauses=()):
        self.data = bytes(data)
        # a growing stream (tailed log, serial port / socket with timeout): at each of these positions the stream has, for the moment,
        # no more data - the read at that position returns nothing ONCE; afterwards the data continues
        self.pauses = sorted(p for p in pauses if 0 < p < len(self.data))
        self.bursts = sorted(set(b for b in bursts if 0 < b < len(self.data)) | set(self.pauses))  # a read never crosses one of these positions
        self.pos = 0
        self.events = events
        self.calls = 0
        self.maxcalls = maxcalls if maxcalls is not None else 6 * len(data) + 64

    def _tick(self):
        self.calls += 1
        if self.calls > self.maxcalls:
            raise HangGuard()

    def _limit(self):
        for b in self.bursts:
            if b > self.pos:
                return b
        return len(self.data)

    def _paused(self):
        if self.pauses and self.pauses[0] == self.pos:
            self.pauses.pop(0)
            return True
        return False

    def read(self, n):
        self._tick()
        if n > 0 and self._paused():
            self.events.append({"t": "read", "n": n, "got": 0, "a": 0, "b": 0, "p": "", "fam": ""})
            return b""
        d = self.data[self.pos:min(self.pos + max(n, 0), self._limit())]
        self.pos += len(d)
        self.events.append({"t": "read", "n": n, "got": len(d), "a": 0, "b": 0, "p": "", "fam": ""})
        return d

    def readline(self):
        self._tick()
        if self._paused():
            self.events.append({"t": "readline", "n": 0, "got": 0, "a": 0, "b": 0, "p": "", "fam": ""})
            return b""
        lim = self._limit()
        j = self.data.find(b"\n", self.pos, lim)
        d = self.data[self.pos:lim] if j < 0 else self.data[self.pos:j + 1]
        self.pos += len(d)
        self.events.append({"t": "readline", "n": 0, "got": len(d), "a": 0, "b": 0, "p": "", "fam": ""})
        return d


import io as _io


class RecBytesIO(_io.BytesIO):
    """a real, seekable io.BytesIO that logs the read()/readline() calls made on it (the other stream kind users hand to the reader)"""

    def __init__(self, data, events, maxcalls=None):
        super().__init__(bytes(data))
        self.data = bytes(data)
        self.events = events
        self.calls = 0
        self.maxcalls = maxcalls if maxcalls is not None else 6 * len(data) + 64

    @property
    def pos(self):
        return self.tell()

    def _tick(self):
        self.calls += 1
        if self.calls > self.maxcalls:
            raise HangGuard()

    def read(self, n=-1):
        self._tick()
        d = super().read(n)
        self.events.append({"t": "read", "n": n, "got": len(d), "a": 0, "b": 0, "p": "", "fam": ""})
        return d

    def readline(self, *a):
        self._tick()
        d = super().readline(*a)
        self.events.append({"t": "readline", "n": 0, "got": len(d), "a": 0, "b": 0, "p": "", "fam": ""})
        return d


class RecMmap:
    """an anonymous memory map holding the stream (mmap.mmap objects are handed to readers when post-processing capture files)"""

    def __init__(self, data, events, maxcalls=None):
        import mmap

        self.data = bytes(data)
        self._m = mmap.mmap(-1, len(self.data))
        self._m.write(self.data)
        self._m.seek(0)
        self.events = events
        self.calls = 0
        self.maxcalls = maxcalls if maxcalls is not None else 6 * len(data) + 64

    def __getattr__(self, name):  # seek, tell, size, ... : mmap's own
        return getattr(self._m, name)

    @property
    def pos(self):
        return self._m.tell()

    def _tick(self):
        self.calls += 1
        if self.calls > self.maxcalls:
            raise HangGuard()

    def read(self, n=None):
        self._tick()
        d = self._m.read(n)
        self.events.append({"t": "read", "n": n, "got": len(d), "a": 0, "b": 0, "p": "", "fam": ""})
        return d

    def readline(self):
        self._tick()
        d = self._m.readline()
        self.events.append({"t": "readline", "n": 0, "got": len(d), "a": 0, "b": 0, "p": "", "fam": ""})
        return d


class _RawPipe(_io.RawIOBase):
    """a non-seekable raw byte source (what a pipe, a FIFO, a serial port or socket.makefile() gives)"""

    def __init__(self, data):
        super().__init__()
        self._d = bytes(data)
        self._p = 0

    def readable(self):
        return True

    def seekable(self):
        return False

    def readinto(self, b):
        n = min(len(b), len(self._d) - self._p)
        b[:n] = self._d[self._p:self._p + n]
        self._p += n
        return n


class RecPipe(_io.BufferedReader):
    """a real io.BufferedReader over a non-seekable source: has tell()/seek() attributes that raise when called"""

    def __init__(self, data, events, maxcalls=None):
        super().__init__(_RawPipe(data), buffer_size=16)
        self.data = bytes(data)
        self.events = events
        self.pos = 0
        self.calls = 0
        self.maxcalls = maxcalls if maxcalls is not None else 6 * len(data) + 64

    def _tick(self):
        self.calls += 1
        if self.calls > self.maxcalls:
            raise HangGuard()

    def read(self, n=-1):
        self._tick()
        d = super().read(n)
        self.pos += len(d)
        self.events.append({"t": "read", "n": n, "got": len(d), "a": 0, "b": 0, "p": "", "fam": ""})
        return d

    def readline(self, *a):
        self._tick()
        d = super().readline(*a)
        self.pos += len(d)
        self.events.append({"t": "readline", "n": 0, "got": len(d), "a": 0, "b": 0, "p": "", "fam": ""})
        return d


_KEEP = []


class _SockView:
    """position bookkeeping for a reader that owns a socket: pos = bytes received - bytes still in the wrapper's (public) buffer"""

    def __init__(self, sock, data):
        self.sock = sock
        self.data = bytes(data)
        self.rdr = None

    def received(self):
        return sum(e[1] for e in self.sock._events if e[0] == "recv")

    @property
    def pos(self):
        got = self.received()
        try:
            buffered = len(self.rdr.datastream.buffer) if self.rdr is not None else 0
        except Exception:  # noqa: BLE001
            buffered = 0
        return got - buffered

    def close(self):
        try:
            self.sock.close()
        except OSError:
            pass


class RecOSPipe(_io.BufferedReader):
    """the read end of a REAL operating-system pipe (what subprocess stdout, a FIFO or piped stdin gives): tell() / seek() fail with a
    plain OSError; the data is fed by a writer thread"""

    def __init__(self, data, events, maxcalls=None):
        import os
        import threading

        r, w = os.pipe()
        super().__init__(_io.FileIO(r, "rb"), buffer_size=64)
        self.data = bytes(data)
        self.events = events
        self.pos = 0
        self.calls = 0
        self.maxcalls = maxcalls if maxcalls is not None else 6 * len(data) + 64

        def feed():
            try:
                with os.fdopen(w, "wb") as f:
                    f.write(self.data)
            except OSError:
                pass

        self._feeder = threading.Thread(target=feed, daemon=True)
        self._feeder.start()

    def _tick(self):
        self.calls += 1
        if self.calls > self.maxcalls:
            raise HangGuard()

    def read(self, n=-1):
        self._tick()
        d = super().read(n)
        self.pos += len(d)
        self.events.append({"t": "read", "n": n, "got": len(d), "a": 0, "b": 0, "p": "", "fam": ""})
        return d

    def readline(self, *a):
        self._tick()
        d = super().readline(*a)
        self.pos += len(d)
        self.events.append({"t": "readline", "n": 0, "got": len(d), "a": 0, "b": 0, "p": "", "fam": ""})
        return d

    def finish(self):
        try:
            self.close()
        except OSError:
            pass
        self._feeder.join(2)


def family(ex):
    import pynmeagps.exceptions as nme
    import pyrtcm.exceptions as rte
    import pyubx2.exceptions as ube

    if isinstance(ex, (ube.UBXMessageError, ube.UBXParseError, ube.UBXStreamError, ube.UBXTypeError)):
        return "UBX"
    if isinstance(ex, (nme.NMEAMessageError, nme.NMEAParseError, nme.NMEAStreamError, nme.NMEATypeError)):
        return "NMEA"
    if isinstance(ex, (rte.RTCMMessageError, rte.RTCMParseError, rte.RTCMStreamError, rte.RTCMTypeError)):
        return "RTCM"
    return "foreign:" + type(ex).__name__


def digest(obj):
    """projection of a parsed object: (type name, digest of serialize()+str())"""
    if obj is None:
        return "None"
    try:
        ser = obj.serialize()
    except Exception as ex:  # noqa: BLE001
        ser = ("err:" + type(ex).__name__).encode()
    try:
        st = str(obj)
    except Exception as ex:  # noqa: BLE001
        st = "err:" + type(ex).__name__
    return type(obj).__name__ + ":" + hashlib.sha1(bytes(ser) + st.encode("utf-8", "replace")).hexdigest()[:16]


def ptype(obj):
    return "None" if obj is None else type(obj).__name__


def direct_parse(raw, msgmode=0, validate=1, pbf=1, labelmsm=1):
    """independent call of the protocol's own parser: (accepted?, digest, family of rejection)"""
    from pynmeagps import NMEAReader
    from pyrtcm import RTCMReader
    from pyubx2 import UBXReader

    raw = bytes(raw)
    try:
        if raw[:1] == b"\xb5":
            m = UBXReader.parse(raw, msgmode=msgmode, validate=validate, parsebitfield=pbf)
        elif raw[:1] == b"\x24":
            m = NMEAReader.parse(raw, validate=validate, msgmode=msgmode)
        else:
            m = RTCMReader.parse(raw, validate=validate, labelmsm=labelmsm)
    except Exception as ex:  # noqa: BLE001
        return False, "rejected", family(ex)
    return True, digest(m), ""


def run_reader(data, filt=7, quit=1, parsing=True, handler=True, msgmode=0, validate=1, pbf=1, keep_reads=True, intern=None, labelmsm=1, bursts=(), kind="min", poll=False, pauses=(), resume=False, companion=None, reentrant=False):
    """One complete iteration of UBXReader over `data`.  Returns the run record."""
    from pyubx2 import UBXReader

    events = []
    sockview = None
    sockbuf = 4096
    fdhold = []
    if kind == "sock" and not bursts:
        # receive buffer sizes that recv() fills exactly (17 = the segment size below), and every fourth socket run in a process that
        # already holds more than a thousand open descriptors (the socket's own descriptor is then above 1024)
        sockbuf = (4096, 17, 4096, 64)[(len(data) + quit) % 4]
        if (len(data) + filt + quit) % 4 == 2:
            import os as _os

            try:
                while len(fdhold) < 1100:
                    fdhold.append(_os.open("/dev/null", _os.O_RDONLY))
            except OSError:
                pass
        # a scripted socket (socket.socket subclass): the reader wraps it itself; segment boundaries are placed just before every LF
        # (between CR and LF), inside headers and at a few seeded positions; what is unread = not yet received + the wrapper's buffer
        from . import sock as _sock

        cuts = sorted({i for i, b in enumerate(data) if b == 0x0A and i > 0} | {k for k in range(3, len(data), 17)})
        if len(data) <= 20000 and (len(data) + filt + quit) % 2 == 1:
            cuts = list(range(1, len(data)))  # a peer that trickles: one byte per recv() (thousands of recv() calls for one long line)
        elif len(data) > 200000:
            # bulk transfer: recv() returns full buffers (4096 bytes) that end anywhere inside frames - the wrapper's buffer is
            # (almost) never drained exactly at a read boundary
            cuts = list(range(4096, len(data), 4096))
        stream = _sock.ScriptSock(_sock.segments(bytes(data), cuts), ("close", "timeout", "reset")[(len(data) + filt + quit) % 3], [])
        sockview = _SockView(stream, data)
    elif kind == "bytesio" and not bursts and len(data) > 0 and (len(data) + filt) % 3 == 0:
        stream = RecMmap(data, events)  # a memory-mapped capture file (file-like, seekable, with mmap's own seek / read semantics)
    elif kind == "bytesio" and not bursts:
        stream = RecBytesIO(data, events)
    elif kind == "pipe" and not bursts:
        # alternately an in-process non-seekable BufferedReader and the read end of a real OS pipe
        stream = RecOSPipe(data, events) if (len(data) + filt) % 2 else RecPipe(data, events)
    else:
        stream = RecStream(data, events, bursts=bursts, pauses=pauses)
    errs = []

    def on_error(err):
        events.append({"t": "handler", "n": 0, "got": 0, "a": 0, "b": stream.pos, "p": "", "fam": family(err)})
        errs.append(err)

    if handler and (len(data) + filt) % 3 == 0:
        # "error handling object or function": every third run hands over a callable OBJECT (whose truth value happens to be False,
        # as an empty collector with __len__ would be) instead of a plain function
        class _Collector:
            def __bool__(self):
                return False

            def __call__(self, err):
                events.append({"t": "handler", "n": 0, "got": 0, "a": 0, "b": stream.pos, "p": "", "fam": family(err)})
                errs.append(err)
                return len(errs)  # (what a handler returns is its own business: a counter, True, a coroutine ...)

        on_error = _Collector()
    elif handler and (len(data) + filt) % 3 == 1 and len(data) % 2:
        # ... or a callable application object that ALSO looks like a logger / a file (error(), warning(), write() ... of its own):
        # the error handler is the object itself, called with the error
        class _Facade:
            def __call__(self, err):
                events.append({"t": "handler", "n": 0, "got": 0, "a": 0, "b": stream.pos, "p": "", "fam": family(err)})
                errs.append(err)

            def _other(self, *a, **k):
                pass

            error = warning = info = debug = exception = critical = log = write = send = put = append = handle = emit = _other

        on_error = _Facade()
    reenter = {"rdr": None, "depth": 0}
    if reentrant and handler and (len(data) + filt) % 3 == 2 and len(data) % 2 == 0:
        # (C08 only: over a socket a nested read that meets the end of the data makes the outer loop poll on, so WHAT is delivered may
        # legitimately differ from a run without such a handler - that the run ends, and how, may not)
        # ... or a handler that uses the reader itself: it reads the item after the rejected one (to log it with the error) - that item
        # is delivered to the handler instead of the loop, in stream order all the same
        def on_error(err):  # noqa: F811
            events.append({"t": "handler", "n": 0, "got": 0, "a": 0, "b": stream.pos, "p": "", "fam": family(err)})
            errs.append(err)
            if reenter["rdr"] is not None and reenter["depth"] == 0:
                reenter["depth"] += 1
                try:
                    raw, parsed = reenter["rdr"].read()
                finally:
                    reenter["depth"] -= 1
                if raw is not None:
                    ok_raw = isinstance(raw, (bytes, bytearray))
                    rb = bytes(raw) if ok_raw else b""
                    items.append({"raw": rb, "ok_raw": ok_raw, "endpos": stream.pos, "pt": ptype(parsed), "pd": digest(parsed)})
                    events.append({"t": "item", "n": 0, "got": 0, "a": stream.pos - len(rb), "b": stream.pos, "p": "", "fam": ""})

    inline_owner = None
    if handler and (len(data) + filt) % 3 == 2 and len(data) % 2:
        # ... or a bound method of an object nobody else holds (created in the constructor call itself)
        class _Tagger:
            def report(self, err):
                events.append({"t": "handler", "n": 0, "got": 0, "a": 0, "b": stream.pos, "p": "", "fam": family(err)})
                errs.append(err)

        inline_owner = _Tagger
        on_error = None

    kw = dict(msgmode=msgmode, validate=validate, protfilter=filt, quitonerror=quit, parsebitfield=pbf, parsing=parsing, labelmsm=labelmsm)
    if sockbuf != 4096:
        kw["bufsize"] = sockbuf
    if handler and inline_owner is None:
        kw["errorhandler"] = on_error
    end = "eof"
    endfam = ""
    items = []
    raised = None
    import signal
    import threading

    from .frames import ObserverTimeout, _alarm

    use_alarm = threading.current_thread() is threading.main_thread()
    if use_alarm:  # wall-clock watchdog: a pure-CPU hang makes no stream call, so the call bound cannot see it
        old = signal.signal(signal.SIGALRM, _alarm)
        global _HANGS
        signal.alarm((10 if _HANGS == 0 else 2) + len(data) // 20000)
    # log records emitted by the library during the run (spec growth: the logging channel of ERR_LOG without an error handler)
    import logging as _logging

    logs = []

    class _Cap(_logging.Handler):
        def emit(self, record):
            msg = record.msg
            logs.append([record.levelname, family(msg) if isinstance(msg, BaseException) else "text"])

    _cap = _Cap(level=0)
    _lg = _logging.getLogger("pyubx2")
    _oldprop = _lg.propagate
    _lg.addHandler(_cap)
    _lg.propagate = False
    _olddis = _logging.root.manager.disable
    _logging.disable(_logging.NOTSET)  # (the harness silences logging globally; records go to the capturing handler only)
    _oldlvl = _lg.level
    if handler and (len(data) + quit) % 3 == 2:
        # an application that has switched logging off (globally, or for this library): the error HANDLER is not logging
        if len(data) % 2:
            _logging.disable(_logging.CRITICAL)
        else:
            _lg.setLevel(_logging.CRITICAL + 10)
    elif (len(data) + quit) % 3 == 1:
        _lg.setLevel(_logging.DEBUG)  # an application that debugs: everything the library logs is enabled (and captured here)
    import warnings as _warnings

    _wctx = _warnings.catch_warnings()
    _wctx.__enter__()
    if (len(data) + quit + filt) % 2:
        # warnings issued from inside the library are promoted to errors in every second run (python -W error)
        _warnings.filterwarnings("error", module=r"pyubx2(\.|$)")
        _warnings.filterwarnings("error", module=r"harness(\.|$)")
    try:
        if inline_owner is not None:
            rdr = UBXReader(stream, errorhandler=inline_owner().report, **kw)
        elif (len(data) + quit + 2 * filt) % 4 == 3:
            # every documented option given positionally, in the documented order
            rdr = UBXReader(stream, msgmode, validate, filt, quit, pbf, labelmsm, sockbuf, parsing, *((on_error,) if handler else ()))
        else:
            rdr = UBXReader(stream, **kw)
        reenter["rdr"] = rdr
        if sockview is not None:
            sockview.rdr = rdr
            stream = sockview
            _KEEP.append(rdr)  # earlier readers / connections stay referenced while later ones are opened (a reconnecting application)
            del _KEEP[:-2]
        it = iter(rdr)
        restarts = 0
        resumed = 0
        crdr = None
        if companion is not None:
            # ANOTHER reader over an unrelated stream, used by the same thread call by call in between (its errors are raised to its
            # caller - ERR_RAISE - who carries on): what this reader returns depends on its own stream only
            import io as _io

            crdr = UBXReader(_io.BytesIO(bytes(companion)), quitonerror=2, protfilter=7, validate=validate, msgmode=msgmode)

        def _comp():
            if crdr is not None:
                try:
                    crdr.read()
                except Exception:  # noqa: BLE001 - the companion's own business
                    pass

        while True:
            _comp()
            try:
                raw, parsed = next(it)
            except StopIteration:
                if pauses and stream.pos < len(data) and restarts < len(pauses) + 1:
                    # the stream has grown since iteration stopped: the application iterates the same reader again
                    restarts += 1
                    it = iter(rdr)
                    continue
                events.append({"t": "eof", "n": 0, "got": 0, "a": 0, "b": stream.pos, "p": "", "fam": ""})
                # a polling caller asks again after end-of-stream: nothing may come back (a late item would be invented / duplicated data)
                nev = len(events)
                for _ in range(3 if poll else 0):
                    raw, parsed = rdr.read()
                    if raw is not None or parsed is not None:
                        ok_raw = isinstance(raw, (bytes, bytearray))
                        rb = bytes(raw) if ok_raw else b""
                        items.append({"raw": rb, "ok_raw": ok_raw, "endpos": stream.pos, "pt": ptype(parsed), "pd": digest(parsed)})
                        events.append({"t": "item", "n": 0, "got": 0, "a": stream.pos - len(rb), "b": stream.pos, "p": "", "fam": ""})
                if not any(e["t"] == "item" for e in events[nev:]):
                    del events[nev:]  # the repeated end-of-stream reads themselves are not part of the logged run
                break
            except Exception as ex:  # noqa: BLE001
                # an application that catches the protocol error raised under ERR_RAISE and carries on with the SAME iterator
                if resume and quit == 2 and not family(ex).startswith("foreign") and resumed < 60000:
                    resumed += 1
                    events.append({"t": "raise", "n": 0, "got": 0, "a": 0, "b": stream.pos, "p": "", "fam": family(ex)})
                    errs.append(ex)
                    continue
                raise
            ok_raw = isinstance(raw, (bytes, bytearray))
            rb = bytes(raw) if ok_raw else b""
            items.append({"raw": rb, "ok_raw": ok_raw, "endpos": stream.pos, "pt": ptype(parsed), "pd": digest(parsed)})
            events.append({"t": "item", "n": 0, "got": 0, "a": stream.pos - len(rb), "b": stream.pos,
                           "p": "", "fam": ""})
    except (HangGuard, ObserverTimeout):
        end = "hang"
        _HANGS += 1
    except Exception as ex:  # noqa: BLE001
        fam = family(ex)
        raised = ex
        if fam.startswith("foreign"):
            end = fam
        else:
            end = "raise"
            endfam = fam
            events.append({"t": "raise", "n": 0, "got": 0, "a": 0, "b": getattr(stream, "pos", 0), "p": "", "fam": fam})
    _wctx.__exit__(None, None, None)
    _lg.removeHandler(_cap)
    _lg.propagate = _oldprop
    _lg.setLevel(_oldlvl)
    _logging.disable(_olddis)
    if use_alarm:
        signal.alarm(0)
        signal.signal(signal.SIGALRM, old)
    if sockview is not None:
        sockview.close()
    for _fd in fdhold:
        try:
            import os as _os

            _os.close(_fd)
        except OSError:
            pass
    if isinstance(stream, RecOSPipe):
        stream.finish()
    run = {
        "filter": filt, "quit": quit, "parsing": 1 if parsing else 0, "handler": 1 if handler else 0,
        "msgmode": msgmode, "validate": validate, "pbf": pbf,
        # unread = what the underlying stream still holds (for a socket: what was never received; a truncated tail legitimately
        # stays in the wrapper's buffer, whose read(n) is all-or-nothing)
        "end": end, "endfam": endfam, "left": (len(data) - stream.pos) if sockview is None else (len(data) - sockview.received()),
        "errfams": [family(e) for e in errs],
        "raised_same": -1, "logs": logs, "resume": 1 if resume else 0,
    }
    run["_items"] = items
    run["_errs"] = errs
    run["_raised"] = raised
    run["events"] = events if keep_reads else [e for e in events if e["t"] not in ("read", "readline")]
    return run


class Interner:
    """lossless interning of raw byte strings: items are logged as indices into a table"""

    def __init__(self):
        self.table = []
        self.idx = {}

    def id(self, b):
        b = bytes(b)
        if b not in self.idx:
            self.idx[b] = len(self.table) + 1
            self.table.append(list(b))
        return self.idx[b]


def finish_run(run, interner):
    """replace the python objects of a run by their projections (ids, digests)"""
    items = run.pop("_items")
    run.pop("_errs")
    run.pop("_raised")
    run["items"] = [interner.id(x["raw"]) if x["ok_raw"] else 0 for x in items]
    run["endpos"] = [x["endpos"] for x in items]
    run["pt"] = [x["pt"] for x in items]
    run["pd"] = [x["pd"] for x in items]
    return run


def same_exception(a, b):
    # "that same exception": same class and same arguments (arguments that are themselves exception objects - pynmeagps wraps a
    # message error in its parse error under VALMSGID - compare by their printable form: exceptions have no value equality)
    return type(a) is type(b) and (a.args == b.args or repr(a.args) == repr(b.args)) and str(a) == str(b)
