"""
Hostile histories: operations executed in the same interpreter immediately BEFORE an observed call.

Every property quantifies over inputs, not over what the process did earlier, so an observed call must give the same
result after any history.  A case may carry  case["hist"] = [op, ...]  (self-contained, so that --replay reproduces it);
observers call run(case.get("hist")) first.  Exceptions raised by history operations are swallowed: many of them are
*meant* to be refused (a construction refused inside a repeating group, a parse failing half-way through a group, a lenient
VALNONE parse of a corrupted frame, the same message in another mode).

ops:  {"op": "construct", "m", "cls", "id", "pbf", "kw": {name: python-literal-repr}}
      {"op": "parse", "f": hex, "mode", "pbf", "validate"}
"""

from ..common import frame


def run(hist):
    if not hist:
        return
    from pyubx2 import UBXMessage, UBXReader

    for h in hist:
        try:
            if h["op"] == "construct":
                kw = {k: eval(v, {"__builtins__": {}}) for k, v in h["kw"].items()}  # noqa: S307 - literals written by the harness
                UBXMessage(bytes([h["cls"]]), bytes([h["id"]]), h["m"], parsebitfield=h.get("pbf", 1), **kw)
            elif h["op"] == "parse":
                m = UBXReader.parse(bytes.fromhex(h["f"]), msgmode=h.get("mode", 0), validate=h.get("validate", 1), parsebitfield=h.get("pbf", 1))
                if m is not None and h.get("inspect"):
                    str(m)
                    repr(m)
        except Exception:  # noqa: BLE001 - histories are allowed (often meant) to fail
            pass


def siblings(l, P):
    """the history of an application that tried the OTHER modes first: the same class / ID constructed from a keyword, built without
    payload, and its frame parsed, in each of the two other modes (most of which are refused: no such definition in that mode)"""
    out = []
    first = next((e["n"] for e in l["lay"] if e["x"] == 1 and e["k"] in ("f", "x")), None)
    for om in [m for m in (0, 1, 2) if m != l["m"]]:
        if first:
            out.append({"op": "construct", "m": om, "cls": l["cls"], "id": l["id"], "pbf": 1, "kw": {first: "1"}})
        out.append({"op": "construct", "m": om, "cls": l["cls"], "id": l["id"], "pbf": 1, "kw": {}})
        out.append({"op": "parse", "f": frame(l["cls"], l["id"], P).hex(), "mode": om, "pbf": 1, "validate": 1, "inspect": 1})
    return out


def recipes(lays, rng, fill, cfgdb=None, limit=8):
    """a handful of generic hostile histories derived from the TLC layouts of the working tree:
    refused constructions inside a repeating group, parses that fail half-way through a group, the same frame in another mode,
    a successful grouped construction.  Returns a list of histories (each a list of ops)."""
    out = []
    grouped = [l for l in lays if l["reachable"] and l["c"] == 2 and l["pbf"] and l["fixes"] and l["len"] and l["len"] > 0]
    rng.shuffle(grouped)
    for l in grouped:
        members = [e for e in l["lay"] if e["k"] == "f" and e["n"].endswith("_02") and e["t"][:1] in "UI" and e["x"] == 1]
        if not members:
            continue
        e = rng.choice(members)
        kw = {f["n"]: repr(f["v"]) for f in l["fixes"]}
        bad = dict(kw)
        bad[e["n"]] = rng.choice(("'bad'", repr(1 << 70), "-1" if e["t"][:1] == "U" else repr(-(1 << 70)), "None"))
        P = fill(l, "rand", rng, cfgdb)
        cut = frame(l["cls"], l["id"], P[:-1])
        other = (l["m"] + 1) % 3
        out.append([{"op": "construct", "m": l["m"], "cls": l["cls"], "id": l["id"], "pbf": 1, "kw": bad}])
        out.append([{"op": "parse", "f": cut.hex(), "mode": l["m"], "pbf": 1, "validate": 1},
                    {"op": "parse", "f": cut.hex(), "mode": l["m"], "pbf": 0, "validate": 0}])
        out.append([{"op": "parse", "f": frame(l["cls"], l["id"], P).hex(), "mode": other, "pbf": 1, "validate": 1, "inspect": 1},
                    {"op": "construct", "m": l["m"], "cls": l["cls"], "id": l["id"], "pbf": 1, "kw": kw}])
        if len(out) >= limit:
            break
    return out
