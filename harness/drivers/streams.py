"""
Stream generators for the reader properties, and the observers that turn (stream, plan) into a
T_Reader trace (one stream, several complete runs of the real reader).
"""

import itertools

from ..common import fletcher, frame
from . import reader as rd

ALPHABET = (0xB5, 0x62, 0x24, 0x47, 0xD3, 0x00, 0x01, 0x0A)
PRE = (0xB5, 0x24, 0xD3)


def crc24q(data):
    crc = 0
    for b in data:
        crc ^= b << 16
        for _ in range(8):
            crc <<= 1
            if crc & 0x1000000:
                crc ^= 0x1864CFB
    return (crc & 0xFFFFFF).to_bytes(3, "big")


def rtcm_frame(payload, good=True):
    h = b"\xd3" + len(payload).to_bytes(2, "big") + bytes(payload)
    c = crc24q(h)
    if not good:
        c = bytes((c[0], c[1], c[2] ^ 0x5A))
    return h + c


def nmea_line(body):
    cs = 0
    for b in body.encode():
        cs ^= b
    return ("$%s*%02X\r\n" % (body, cs)).encode()


def alphabet_streams(maxlen):
    for n in range(maxlen + 1):
        for t in itertools.product(ALPHABET, repeat=n):
            yield bytes(t)


def noise(rng, n):
    return bytes(rng.choice([b for b in range(256) if b not in PRE]) for _ in range(n))


def frame_pool(rng, extra_ubx=()):
    """returns list of (bytes, protocol) clean frames: good and boundary-preserving bad ones"""
    p = rd.pools()
    out = []
    for f in p["ubx"]:
        out.append((f, "UBX"))
    for f in extra_ubx:
        out.append((f, "UBX"))
    for f in p["nmea"]:
        if len(f) > 2 and f[0] == 0x24:
            out.append((f, "NMEA"))
    for f in p["rtcm"]:
        out.append((f, "RTCM"))
    # (frames of tens of kilobytes take part in the deterministic tour of every reader check, not in the random mixtures)
    out.extend(x for x in special_frames(rng) if len(x[0]) <= 7000)
    return out


def special_frames(rng):
    """the synthesised frames of the pool: every boundary case a reader property cares about (each of them is also placed
    DETERMINISTICALLY into a stream of every reader check, see readerprops.gen_tour)"""
    out = []
    # synthesised
    for body in ("GNGGA,092204.999,4250.5589,S,14718.5084,E,1,04,24.4,19.7,M,,,,0000",
                 "GPGLL,5327.04319,N,00214.41396,W,223232.00,A,A", "GNRMC,,V,,,,,,,,,,N", "GPZZZ,1,2,3", "PUBX,00"):
        out.append((nmea_line(body), "NMEA"))
    # valid checksum but fields that cannot be converted / unknown talkers (rejected by the parser in other ways than the checksum)
    for body in ("GNGGA,x,y,z", "GNGSV,x,y,z", "GNGGA,092204.999,4250.5589,S,14718.5084,E,1,0x,24.4,19.7,M,,,,0000", "GNRMC,abc,V,,,,,,,zz,,,N",
                 "GNVTG,,T,,M,a,N,b,K,N", "GPGSA,A,3,1,2,x", "G", "GN"):
        out.append((nmea_line(body), "NMEA"))
    # valid sentences terminated by a bare LF (no CR)
    for body in ("GNGLL,5327.04319,N,00214.41396,W,223232.00,A,A", "GNRMC,084159.00,A,3203.94995,N,03446.42914,E,0.000,,080222,,,D,V"):
        out.append((nmea_line(body).replace(b"\r\n", b"\n"), "NMEA"))
    out.append((b"$GNGLL,5327.04319,N*00\r\n", "NMEA"))  # bad checksum
    out.append((b"$G\n", "NMEA"))
    out.append((b"$P\r\n", "NMEA"))
    for pl in (b"", b"\x3e", b"\x3e\xd0\x00", bytes(5), bytes(19), bytes(range(40)), b"\x43\x20" + bytes(30)):
        out.append((rtcm_frame(pl), "RTCM"))
        out.append((rtcm_frame(pl, good=False), "RTCM"))
    for typ in (1005, 1077, 1230, 4072):  # known message types cut short / zero-filled (valid CRC)
        hdr = (typ << 4).to_bytes(2, "big")
        for ln in (2, 3, 10, 40):
            out.append((rtcm_frame(hdr + bytes(ln - 2)), "RTCM"))
    out.append((rtcm_frame(bytes(300)), "RTCM"))
    out.append((rtcm_frame(bytes(1023)), "RTCM"))
    # UBX: zero length, unknown class, bad checksum, payload containing preamble bytes
    out.append((frame(0x06, 0x00, b""), "UBX"))
    out.append((frame(0x77, 0x12, b"\xb5\x62\x24\xd3\x00"), "UBX"))
    g = frame(0x05, 0x01, b"\x06\x01")
    out.append((g[:-1] + bytes((g[-1] ^ 1,)), "UBX"))
    out.append((frame(0x01, 0x07, rng.randbytes(92)), "UBX"))
    out.append((frame(0x01, 0x07, rng.randbytes(91)), "UBX"))
    out.append((frame(0x0A, 0x04, bytes(40)), "UBX"))
    # frames within frames: a UBX / RTCM3 frame whose payload is itself a complete valid frame of some protocol
    inner = [frame(0x05, 0x01, b"\x06\x01"), nmea_line("GNGLL,5327.04319,N,00214.41396,W,223232.00,A,A"), rtcm_frame(bytes(5)), frame(0x06, 0x00, b"")]
    for x in inner:
        out.append((frame(0x04, 0x04, x), "UBX"))
        out.append((frame(0x77, 0x01, b"\x00" + x + b"\x00\x00"), "UBX"))
        if b"\n" not in x:
            out.append((rtcm_frame(b"\x00\x00" + x), "RTCM"))
    # text lines far longer than any NMEA sentence: '$G' + several hundred / thousand bytes without LF (whatever the NMEA parser makes of them)
    for n in (300, 600, 1100, 4200, 9000):
        out.append((b"$GNTXT," + bytes(0x41 + (k % 26) for k in range(n)) + b"*00\r\n", "NMEA"))
        # ... and the same with its correct checksum (whether the NMEA parser takes a sentence that long is its business)
        out.append((nmea_line("GNTXT,01,01,02," + "".join(chr(0x41 + (k % 26)) for k in range(n))), "NMEA"))
        out.append((b"$P" + bytes(rng.choice(b"\x00\x01\xb5\x62\xd3\xff0123") for _ in range(n)) + b"\n", "NMEA"))
    # RTCM3 runts (0- / 1-byte payload, rejected by the parser) whose payload or CRC bytes are frame-start bytes
    for v in range(256):
        fr = rtcm_frame(bytes((v,)))
        if v in (0xB5, 0x24, 0xD3) or any(b in (0xB5, 0x24, 0xD3) for b in fr[-3:]):
            out.append((fr, "RTCM"))
    for crc in (b"\xb5\x62\x05", b"\x24\x47\x4e", b"\x00\xd3\x00", b"\x00\x00\xb5"):
        out.append((b"\xd3\x00\x00" + crc, "RTCM"))
    # MGA frames (class 13: the third key byte of their table entries is a payload byte) with type bytes no table entry knows
    for mid in (0x00, 0x02, 0x03, 0x05, 0x06, 0x20, 0x21, 0x40, 0x60, 0x80):
        for typ in (0x07, 0xEE, 0x02, 0x00):
            out.append((frame(0x13, mid, bytes((typ,)) + bytes(1 + (mid + typ) % 40)), "UBX"))
    # frames whose own header bytes contain the sync characters (id b5 + length 0x..62, length 0x62b5, class/id b5 62)
    out.append((frame(0x77, 0xB5, bytes(0x62)), "UBX"))
    out.append((frame(0xB5, 0x62, b"\x01\x02\x03"), "UBX"))
    out.append((frame(0x04, 0x02, bytes(0x20 + (k % 90) for k in range(0x62B5))), "UBX"))
    out.append((frame(0x62, 0xB5, b"\x62\xb5\x62"), "UBX"))
    # payload lengths at the sign bit of the 16-bit length field and at its maximum
    for n in (32767, 32768, 40000, 65535):
        out.append((frame(0x04, 0x02, bytes(0x20 + (k % 90) for k in range(n))), "UBX"))
    out.append((frame(0x77, 0x05, rng.randbytes(32768)), "UBX"))
    for n in (254, 255, 256, 257, 258, 511, 512, 1000, 6000):  # lengths around byte boundaries and long frames
        out.append((frame(0x77, n & 0xFF, rng.randbytes(n)), "UBX"))
        out.append((frame(0x02, 0x15, rng.randbytes(n)), "UBX"))
    return out


def spoil(f):
    """the same frame with its last checksum / CRC byte damaged"""
    return f[:-1] + bytes((f[-1] ^ 0x5A,))


def nested_frames(rng):
    """frames whose payload contains complete valid frames of the three protocols (adversarial for any re-scanning of partial data)"""
    inner = [frame(0x05, 0x01, b"\x06\x01"), frame(0x05, 0x00, b"\x06\x8a"), nmea_line("GNGLL,5327.04319,N,00214.41396,W,223232.00,A,A"),
             rtcm_frame(bytes(5)), frame(0x06, 0x00, b"")]
    out = []
    # rejected frames within rejected frames: an outer frame with a damaged checksum whose payload holds good frames AND an inner frame
    # with a damaged checksum that itself holds a good frame (adversarial for resynchronisation / push-back of rejected spans)
    a, b, c = inner[0], inner[1], frame(0x06, 0x01, b"\x01\x07")
    for mid in (spoil(frame(0x77, 0x03, b"\x00" + b)), spoil(rtcm_frame(b"\x00" + b + b"\x00")), frame(0x77, 0x03, b"\x00" + b)):
        body = a + mid + c
        out.append((spoil(frame(0x77, 0x04, body)), "UBX"))
        out.append((spoil(frame(0x77, 0x04, mid + c + inner[2])), "UBX"))
        out.append((spoil(rtcm_frame(body)), "RTCM"))
        out.append((frame(0x77, 0x04, body), "UBX"))
    for x in inner:
        out.append((frame(0x04, 0x04, x), "UBX"))
        out.append((frame(0x77, 0x01, b"\x00" + x + b"\x00\x00"), "UBX"))
        out.append((frame(0x77, 0x02, x + rng.choice(inner) + b"\x01\x02\x03"), "UBX"))
        if b"\n" not in x:
            out.append((rtcm_frame(b"\x00\x00" + x + b"\x00"), "RTCM"))
    return out


def clean_stream(rng, pool, nframes, noise_p=0.3, only_ok=None):
    """sequence of whole frames with optional preamble-free noise between them; returns (bytes, recipe)"""
    parts = []
    recipe = []
    pos = 0
    for _ in range(nframes):
        if rng.random() < noise_p:
            nz = noise(rng, rng.randrange(1, 6))
            recipe.append({"a": pos, "b": pos + len(nz), "p": "NOISE", "ok": 0, "dd": "", "fam": ""})
            parts.append(nz)
            pos += len(nz)
        f, p = rng.choice(pool)
        recipe.append({"a": pos, "b": pos + len(f), "p": p, "ok": -1, "dd": "", "fam": ""})
        parts.append(f)
        pos += len(f)
    if rng.random() < noise_p:
        nz = noise(rng, rng.randrange(1, 4))
        recipe.append({"a": pos, "b": pos + len(nz), "p": "NOISE", "ok": 0, "dd": "", "fam": ""})
        parts.append(nz)
    return b"".join(parts), recipe


def mutate(rng, f):
    k = rng.randrange(6)
    if len(f) < 3:
        return f
    i = rng.randrange(len(f))
    if k == 0:
        return f[:i] + bytes((rng.randrange(256),)) + f[i + 1:]
    if k == 1:
        return f[:i] + f[i + 1:]
    if k == 2:
        return f[:i] + bytes((rng.choice(PRE + (0x0A, 0x62, 0x00)),)) + f[i:]
    if k == 3:
        return f[:i]
    if k == 4:
        return f[i:]
    return f[:i] + rng.randbytes(rng.randrange(1, 5)) + f[i:]


FRAGS = [b"\xb5", b"\xb5\x62", b"\xb5\x62\x06", b"\xb5\x62\x06\x01\x03\x00", b"\x24", b"\x24\x47", b"$GN", b"\xd3",
         b"\xd3\x00", b"\xd3\x00\x00", b"\xd3\x03\xff", b"\xd3\x04", b"\x0a", b"\x0d\x0a", b"\xb5\xb5\x62", b"\x24\x24G", b"\xd3\xd3\x00"]


def garbage_stream(rng, pool, nparts):
    parts = []
    for _ in range(nparts):
        r = rng.random()
        if r < 0.35:
            parts.append(rng.choice(pool)[0])
        elif r < 0.6:
            parts.append(mutate(rng, rng.choice(pool)[0]))
        elif r < 0.8:
            parts.append(rng.choice(FRAGS))
        elif r < 0.9:
            parts.append(rng.randbytes(rng.randrange(1, 8)))
        else:
            parts.append(noise(rng, rng.randrange(1, 5)))
    return b"".join(parts)


# ------------------------------------------------------------------------------------- observers
def _ev_tuples(run):
    code = {"read": "r", "readline": "l", "item": "i", "handler": "h", "eof": "e", "raise": "x"}
    run["events"] = [[code[e["t"]], e["n"], e["got"], e["a"], e["b"], e["fam"]] for e in run["events"]]
    return run


def fill_recipe(recipe, S, msgmode, validate, pbf, labelmsm=1):
    out = []
    for x in recipe:
        x = dict(x)
        if x["p"] != "NOISE":
            ok, dd, fam = rd.direct_parse(S[x["a"]:x["b"]], msgmode, validate, pbf, labelmsm)
            x["ok"], x["dd"], x["fam"] = (1 if ok else 0), dd, fam
        out.append(x)
    return out


def obs_runs(case):
    """case: {prop, S: hex, recipe: [...]|[], plan: [ {filter,quit,parsing,handler,cut,reads}... ],
              msgmode, validate, pbf, conf}"""
    S = bytes.fromhex(case["S"])
    mm, va, pbf = case.get("msgmode", 0), case.get("validate", 1), case.get("pbf", 1)
    lm = case.get("labelmsm", 1)
    it = rd.Interner()
    runs = []
    raw_runs = []
    for pl in case["plan"]:
        cut = pl.get("cut", -1)
        data = S if cut < 0 else S[:cut]
        r = rd.run_reader(data, filt=pl.get("filter", 7), quit=pl.get("quit", 1), parsing=bool(pl.get("parsing", 1)),
                          handler=bool(pl.get("handler", 1)), msgmode=mm, validate=va, pbf=pbf,
                          keep_reads=bool(pl.get("reads", 0)), labelmsm=lm, bursts=case.get("bursts", ()), pauses=case.get("pauses", ()), kind=case.get("streamkind", "min"),
                          resume=bool(pl.get("resume", 0)), companion=bytes.fromhex(case["companion"]) if case.get("companion") else None,
                          reentrant=case["prop"] == "C08",
                          poll=case["prop"] == "C07")  # C07 speaks of successive read() calls: a polling caller asks again after (None, None)
        r["cut"] = cut
        r["reads"] = 1 if pl.get("reads", 0) and case.get("streamkind") != "sock" and not case.get("pauses") else 0
        raw_runs.append(r)
    same = -1
    if case["prop"] == "C12" and len(raw_runs) >= 3:
        lg, rs = raw_runs[1], raw_runs[2]
        if lg["_errs"] and rs["_raised"] is not None:
            same = 1 if rd.same_exception(lg["_errs"][0], rs["_raised"]) else 0
    for r in raw_runs:
        runs.append(_ev_tuples(rd.finish_run(r, it)))
    recipe = fill_recipe(case.get("recipe", []), S, mm, va, pbf, lm)
    allok = 1 if recipe and all(x["p"] == "NOISE" or x["ok"] == 1 for x in recipe) else 0
    return {"prop": case["prop"], "S": list(S), "raws": it.table, "recipe": recipe, "runs": runs, "allok": allok,
            "same_exc": same, "conf": case.get("conf", 0)}


OBSERVERS = {"runs": obs_runs}
