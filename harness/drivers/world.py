"""C13 observers: each case is executed in a fresh interpreter (harness/drivers/world_child.py)."""

import json
import os
import subprocess
import sys
import tempfile

from ..common import VERIF, MachineryError


def obs_world(case):
    d = tempfile.mkdtemp(prefix="c13-", dir=os.path.join(VERIF, "build"))
    cin, cout = os.path.join(d, "case.json"), os.path.join(d, "out.json")
    try:
        with open(cin, "w") as f:
            json.dump(case, f)
        env = dict(os.environ)
        env["PYTHONPATH"] = VERIF
        env["PYTHONDONTWRITEBYTECODE"] = "1"
        p = subprocess.run([sys.executable, "-m", "harness.drivers.world_child", cin, cout], cwd=VERIF, env=env,
                           capture_output=True, timeout=600)
        if not os.path.exists(cout):
            raise MachineryError("C13 child failed: rc=%s %s" % (p.returncode, p.stderr[-800:]))
        with open(cout) as f:
            res = json.load(f)
        if res.get("crash"):
            raise MachineryError("C13 child crashed: " + res["crash"])
        # anything that reached the child's real stdout/stderr before/after the capture window is also output
        return {"mode": case["mode"], "t0": res["t0"], "events": res["events"], "outsize": res["outsize"], "outtext": res.get("outtext", "")}
    finally:
        for x in (cin, cout):
            if os.path.exists(x):
                os.remove(x)
        os.rmdir(d)


def obs_orders(case):
    """the same operations executed in several different orders, each order in its own fresh interpreter;
    the events are concatenated into ONE trace, so that the judge requires one result per input across all orders"""
    events = []
    t0 = None
    outsize = 0
    from concurrent.futures import ThreadPoolExecutor

    with ThreadPoolExecutor(max_workers=8) as ex:
        results = list(ex.map(lambda order: obs_world({"mode": "history", "ops": case["ops"], "probes": [], "history": order}), case["orders"]))
    for r in results:
        if t0 is None:
            t0 = r["t0"]
        elif r["t0"] != t0:
            r["events"] = [e[:5] + ["changed-between-interpreters"] for e in r["events"]]
        events += r["events"]
        outsize += r["outsize"]
    return {"mode": "history", "t0": t0 or "", "events": events, "outsize": outsize, "outtext": ""}


OBSERVERS = {"world": obs_world, "orders": obs_orders}
