"""C13 observers: each case is executed in a fresh interpreter (harness/drivers/world_child.py)."""

import json
import os
import subprocess
import sys
import tempfile

from ..common import VERIF, MachineryError


def obs_world(case):
    d = tempfile.mkdtemp(prefix="c13-", dir=os.path.join(VERIF, "build"))
    cin, cout = os.path.join(d, "case.json"), os.path.join(d, "out.json")
    try:
        with open(cin, "w") as f:
            json.dump(case, f)
        env = dict(os.environ)
        env["PYTHONPATH"] = VERIF
        env["PYTHONDONTWRITEBYTECODE"] = "1"
        p = subprocess.run([sys.executable, "-m", "harness.drivers.world_child", cin, cout], cwd=VERIF, env=env,
                           capture_output=True, timeout=600)
        if not os.path.exists(cout):
            raise MachineryError("C13 child failed: rc=%s %s" % (p.returncode, p.stderr[-800:]))
        with open(cout) as f:
            res = json.load(f)
        if res.get("crash"):
            raise MachineryError("C13 child crashed: " + res["crash"])
        # anything that reached the child's real stdout/stderr before/after the capture window is also output
        return {"mode": case["mode"], "t0": res["t0"], "events": res["events"], "outsize": res["outsize"], "outtext": res.get("outtext", "")}
    finally:
        for x in (cin, cout):
            if os.path.exists(x):
                os.remove(x)
        os.rmdir(d)


OBSERVERS = {"world": obs_world}
