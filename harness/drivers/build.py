"""
Construction drivers (C03 C04 C15): call the real UBXMessage constructor with keyword values and log
the supplied values through the projection of drivers/walk.py.
"""

import math

from ..common import frame
from . import envrot, history, walk
from .frames import BAD, classify_exc, parse_call


LAST_EXC = [""]  # class name of the exception the last construct() ended with ("" = none): spec growth (UbxBuild!ConstructClass)


def classify_build_exc(ex):
    import pyubx2.exceptions as ube

    LAST_EXC[0] = type(ex).__name__
    if isinstance(ex, (ube.UBXMessageError, ube.UBXTypeError)):
        return "ubx"
    if isinstance(ex, (ube.UBXParseError, ube.UBXStreamError)):
        return "ubxother"
    return "foreign:" + type(ex).__name__


def zero_hp(lay, P):
    """zero the high-precision companion fields (they fold into their base attribute when parsed)"""
    buf = bytearray(P)
    for e in lay["lay"]:
        if e["k"] == "f" and e["n"].startswith("_HP") and e["size"] > 0:
            buf[e["off"]:e["off"] + e["size"]] = bytes(e["size"])
    return bytes(buf)


def construct(m, cls, mid, pbf, kwargs, alias=None):
    """alias: every [class name, message name] pair the message-ID table maps to this class / ID (several for the MGA / RXM messages
    whose third key byte is a payload attribute): one case in five addresses the message by one of them - the name only selects class
    and ID, the layout follows from the keywords"""
    from pyubx2 import UBXMessage

    if len(kwargs) > 1:
        # keyword order is the caller's business: present the values in a (deterministically) shuffled order
        import random

        items = list(kwargs.items())
        random.Random(len(items) * 131 + cls * 7 + mid).shuffle(items)
        kwargs = dict(items)
    if (cls + mid + len(kwargs)) % 2:
        pbf = bool(pbf)
    import copy

    LAST_EXC[0] = ""
    try:
        pristine = copy.deepcopy(kwargs)
    except Exception:  # noqa: BLE001 - values that cannot be copied (hostile objects) are used once, as they are
        pristine = None
    try:
        with envrot.hostile(envrot.key(cls, mid, len(kwargs), m)):
            if (cls + 3 * mid + len(kwargs)) % 5 == 2:
                # parsebitfield positionally, the mode as a member of an IntEnum
                msg = UBXMessage(bytes([cls]), bytes([mid]), envrot.mode_arg(m, 5), pbf, **kwargs)
            elif alias and (cls + 3 * mid + len(kwargs)) % 5 == 3:
                a = alias[(len(kwargs) + sum(len(k) for k in kwargs)) % len(alias)]
                msg = UBXMessage(a[0], a[1], m, parsebitfield=pbf, **kwargs)
            elif (cls + 3 * mid + len(kwargs)) % 5 == 4:
                msg = UBXMessage(cls, mid, m, parsebitfield=pbf, **kwargs)  # (class and ID as integers)
            else:
                msg = UBXMessage(bytes([cls]), bytes([mid]), m, parsebitfield=pbf, **kwargs)
            if pristine is not None and any(isinstance(v, (list, bytearray, dict)) for k, v in vars(msg).items() if not k.startswith("_")):
                # the message hands mutable values (array attributes) to its owner: an owner that changed them in place builds the
                # same message again from (a pristine copy of) the same keywords - the observed construction is that second one
                envrot.taint(msg)
                msg = UBXMessage(bytes([cls]), bytes([mid]), m, parsebitfield=pbf, **pristine)
    except Exception as ex:  # noqa: BLE001
        return None, classify_build_exc(ex)
    return msg, "msg"


def abstract_kw(lay, kwargs, P):
    """supplied keyword values through the projection: [[name, k, v], ...]"""
    by, hp = walk.index_layout(lay)
    out = []
    for name, v in kwargs.items():
        e = by.get(name)
        if e is None:
            out.append([name, "bad", []])
            continue
        if e["k"] == "x":
            pr = walk.project_flag(e, v)
        else:
            pr = walk.project_field(e, v, P, None, canon=True)
        out.append([name, "bad" if pr[0] == "?" else pr[0], pr[1]])
    return out


def obs_c03(case):
    """case: {lay, P0: hex, drop: [names omitted], only: [names] | None}"""
    lay = case["lay"]
    P0 = bytes.fromhex(case["P0"])
    m, cls, mid, pbf = lay["m"], lay["cls"], lay["id"], 1 if lay["pbf"] else 0
    ev = {"prop": "C03", "m": m, "cls": cls, "id": mid, "pbf": pbf, "pre": "", "kw": [], "out": "", "P": [], "back": [], "backidx": [],
          # full = every attribute the PARSER reported for P0 is fed back unchanged (the "in particular" clause of the property)
          "full": 0 if (case.get("synthkw") or case.get("only") is not None or case.get("drop")) else 1}
    if case.get("synthkw"):
        # keyword values decoded from P0 by the harness itself (independent of the library's parser)
        kwargs = synth_kwargs(lay, P0)
        ev["pre"] = "msg"
    else:
        msg0, pre, _ = walk.parse_payload(m, cls, mid, pbf, P0)
        ev["pre"] = pre
        if msg0 is None:
            return ev
        kwargs = {k: v for k, v in vars(msg0).items() if not k.startswith("_")}
    if case.get("asint"):
        # integral floats handed over as Python ints (a float field takes int or float)
        kwargs = {k: (int(v) if isinstance(v, float) and v == v and abs(v) != float("inf") and v == int(v) else v) for k, v in kwargs.items()}
    if case.get("only") is not None:
        kwargs = {k: v for k, v in kwargs.items() if k in case["only"]}
    for d in case.get("drop", ()):
        kwargs.pop(d, None)
    ev["kw"] = abstract_kw(lay, kwargs, P0)
    if not kwargs:
        return ev
    history.run(case.get("hist"))
    msg, out = construct(m, cls, mid, pbf, kwargs, alias=case.get("alias"))
    ev["out"] = out
    ev["exc"] = LAST_EXC[0]
    if msg is None:
        return ev
    P = msg.payload or b""
    ev["P"] = list(walk.canon_nans(lay, P) if len(P) == len(P0) else P)
    # hostile caller: overwrite in place every list the message exposes (omitted array attributes must not be shared between messages)
    for _k, _v in list(vars(msg).items()):
        if isinstance(_v, list):
            for _j in range(len(_v)):
                _v[_j] = 0xA5
    # parse the serialisation back and project the supplied names again (candidates now from the built payload)
    try:
        back, bout = parse_call(msg.serialize(), m, pbf, 1)
    except Exception:  # noqa: BLE001
        back, bout = None, "err"
    if back is not None:
        # the layout of the built payload may differ in length (groups): project by name only where offsets still apply
        battrs = {k: v for k, v in vars(back).items() if not k.startswith("_")}
        sub = {k: battrs[k] for k in kwargs if k in battrs}
        ab = abstract_kw(lay, sub, P if len(P) == len(P0) else P0)
        names = [x[0] for x in ev["kw"]]
        for x in ab:
            if x[0] in names:
                ev["back"].append(x)
                ev["backidx"].append(names.index(x[0]) + 1)
    return ev


def project_target(e, v, P):
    """projection of a (possibly bad) supplied value against the built payload, scaled fields within one unit"""
    if type(v) is bool and (e["k"] == "x" or e["t"][:1] in "UEILR"):
        v = int(v)  # True/False are the integers 1/0
    if e["k"] == "x":
        pr = walk.project_flag(e, v)
        return [e["n"], pr[0], pr[1]]
    if e["k"] == "f" and e["t"][:1] == "C" and e["t"] != "CH" and isinstance(v, str):
        try:
            b = v.encode("utf-8")
        except UnicodeError:
            return [e["n"], "?", []]
        return [e["n"], "f", list(b)]
    if e["sc"] == 1 and e["t"][:1] in "UEIL" and walk._num_ok(v) and not (isinstance(v, float) and not math.isfinite(v)):
        from fractions import Fraction

        n = e["size"]
        cand = bytes(P[e["off"]:e["off"] + n])
        if len(cand) == n:
            raw = int.from_bytes(cand, "little", signed=e["t"][:1] == "I")
            scale = Fraction(float(e["scale"]))
            if abs(Fraction(v) - raw * scale) <= abs(scale) + walk.HALF_E12:
                return [e["n"], "f", list(cand)]
        return [e["n"], "?", []]
    pr = walk.project_field(e, v, P, None, canon=True)
    return [e["n"], pr[0], pr[1]]


def synth_kwargs(lay, P):
    """keyword values for the exposed entries of a layout, decoded from payload P by the harness itself (used where the library's own
    parser cannot supply them: definitions it cannot parse in this bitfield view)"""
    import struct

    out = {}
    for e in lay["lay"]:
        if e["x"] != 1 or e["n"].startswith("_HP") or e["k"] == "cfg":
            continue
        if e["k"] == "x":
            bits = int.from_bytes(P[e["off"]:e["off"] + e["size"]], "little")
            out[e["n"]] = (bits >> e["bo"]) & ((1 << e["w"]) - 1)
            continue
        t, n = e["t"], e["size"]
        b = bytes(P[e["off"]:e["off"] + n]) if n >= 0 else bytes(P[e["off"]:])
        kind = t[:1]
        if t == "CH":
            out[e["n"]] = b.decode("ascii", "replace")
        elif kind in "UEIL":
            v = int.from_bytes(b, "little", signed=kind == "I")
            out[e["n"]] = v * float(e["scale"]) if e["sc"] == 1 else v
        elif kind in "XC":
            out[e["n"]] = b
        elif kind == "R" and len(b) == n:
            out[e["n"]] = struct.unpack("<f" if n == 4 else "<d", b)[0]
        elif kind == "A":
            out[e["n"]] = list(b)
    return out


def obs_c15(case):
    """case: {lay, P0: hex, tgt: name, value: python literal as repr, structural}"""
    lay = case["lay"]
    P0 = bytes.fromhex(case["P0"])
    m, cls, mid, pbf = lay["m"], lay["cls"], lay["id"], 1 if lay["pbf"] else 0
    ev = {"prop": "C15", "m": m, "cls": cls, "id": mid, "pbf": pbf, "kw": [], "tgt": [case["tgt"], "?", []], "out": "",
          "P": [], "ser": [], "structural": case.get("structural", 0)}
    msg0, pre, _ = walk.parse_payload(m, cls, mid, pbf, P0)
    keep = set(case.get("keep", ()))
    if msg0 is None and case.get("synth"):
        # the library cannot parse this definition in this view (known findings D14 / D17): the keyword values are decoded by the harness
        kwargs = {k: v for k, v in synth_kwargs(lay, P0).items() if k in keep or k in case["synth"]}
    elif msg0 is None:
        ev["out"] = "ubx"  # nothing to build from: trivial for the judge
        ev["structural"] = 0
        ev["kw"] = [["?", "bad", []]]
        return ev
    else:
        # supply only the structural attributes (group counts, discriminators) and the target: everything else stays nominal,
        # so that the expectation does not depend on the (separately tracked) rounding behaviour of scaled fields
        kwargs = {k: v for k, v in vars(msg0).items() if not k.startswith("_") and k in keep}
    good = dict(kwargs)
    good.pop(case["tgt"], None)
    ev["kw"] = abstract_kw(lay, good, P0)
    value = eval(case["value"], {"nan": float("nan"), "inf": float("inf"), "set": set, "memoryview": memoryview, "bytearray": bytearray, "__builtins__": {}})  # noqa: S307 - literals written by the harness
    kwargs[case["tgt"]] = value
    history.run(case.get("hist"))
    msg, out = construct(m, cls, mid, pbf, kwargs)
    ev["out"] = out
    ev["exc"] = LAST_EXC[0]
    if msg is not None:
        P = msg.payload or b""
        ev["P"] = list(P)
        try:
            s = msg.serialize()
            ev["ser"] = list(s) if isinstance(s, (bytes, bytearray)) else BAD
        except Exception:  # noqa: BLE001
            ev["ser"] = BAD
        by, _ = walk.index_layout(lay)
        e = by.get(case["tgt"])
        if e is None:  # reserved (hidden) bit flag
            e = next((x for x in lay["lay"] if x["n"] == case["tgt"] and x["k"] == "x"), None)
        if e is not None:
            ev["tgt"] = project_target(e, value, P)
    return ev


def obs_c04(case):
    """case: {m, cls, id, route: none|payload|kw, P: hex|None, kwargs: {...}|None, names: [clsname, msgname]|None}"""
    from pyubx2 import UBXMessage, UBXReader

    m, cls, mid = case["m"], case["cls"], case["id"]
    ev = {"prop": "C04", "kind": "construct", "ser": BAD, "payload": BAD, "clsid": [cls, mid], "forms": [], "reparse": "", "reser": BAD,
          "built": ""}
    kw = {}
    if case["route"] == "payload":
        # the raw payload as the buffer types I/O code holds it in: bytes, bytearray (recv_into / readinto), memoryview
        raw = bytes.fromhex(case["P"])
        kw = {"payload": (raw, bytearray(raw), memoryview(raw))[(len(raw) + mid) % 3] if case.get("buf", 1) else raw}
    elif case["route"] == "kw":
        kw = dict(case["kwargs"])
        for k, v in list(kw.items()):
            if isinstance(v, dict) and "hex" in v:
                kw[k] = bytes.fromhex(v["hex"])
    forms = [(bytes([cls]), bytes([mid])), (cls, mid)]
    if case.get("names"):
        forms.append(tuple(case["names"]))
        # ... and as instances of a str subclass with case-insensitive equality, written in lower case
        forms.append((envrot.CIStr(case["names"][0].lower()), envrot.CIStr(case["names"][1].lower())))
    if case["route"] == "lenient":
        forms = forms[:1]
    sers = []
    for a, b in forms:
        try:
            if case["route"] == "lenient":
                # a message obtained by a lenient (VALNONE) parse of a frame whose checksum / payload byte was damaged
                msg = UBXReader.parse(bytes.fromhex(case["f"]), msgmode=m, validate=0)
            else:
                msg = UBXMessage(a, b, m, **kw)
            # "however a message is obtained": three times in eight what is serialised is a pickle / deepcopy / copy twin
            # (the same kind of twin for every addressing form of a case; a message holding a memoryview cannot be pickled at all)
            if not isinstance(kw.get("payload"), memoryview):
                msg = envrot.twin(msg, envrot.key(cls, mid, m, len(kw)) + (len(case.get("P") or "") // 2))
        except Exception as ex:  # noqa: BLE001
            sers.append((None, "exc:" + classify_build_exc(ex)))
            continue
        try:  # the message exists: from here on everything is judged (serialize() must return a frame)
            s = msg.serialize()
            sers.append((msg, list(s) if isinstance(s, (bytes, bytearray)) else BAD))
        except Exception:  # noqa: BLE001
            sers.append((msg, BAD))
    # mixed addressing (one part as bytes, the other as integer): refused, or the same frame - never a different one
    ev["mixed"] = []
    if case["route"] != "lenient":
        for a, b in ((bytes([cls]), mid), (cls, bytes([mid]))):
            try:
                s = UBXMessage(a, b, m, **kw).serialize()
                ev["mixed"].append(list(s) if isinstance(s, (bytes, bytearray)) else BAD)
            except Exception:  # noqa: BLE001 - a refusal is fine
                pass
    msg0, s0 = sers[0]
    if msg0 is None:
        ev["built"] = s0
        # construction did not succeed for the byte form: all forms must fail alike (not judged; property quantifies over successes)
        return ev
    ev["built"] = "msg"
    ev["ser"] = s0
    pl = msg0.payload
    ev["payload"] = list(bytes(pl)) if isinstance(pl, (bytes, bytearray, memoryview)) else ([] if pl is None else BAD)
    ev["forms"] = [x[1] if not isinstance(x[1], str) else BAD for x in sers[1:]]
    try:
        back = UBXReader.parse(bytes(s0), msgmode=m)
        ev["reparse"] = "msg"
        ev["reser"] = list(back.serialize())
    except Exception as ex:  # noqa: BLE001
        ev["reparse"] = classify_exc(ex)
    return ev


def obs_c04_ext(case):
    """message types registered / re-registered by the application at run time (the tables are public dictionaries): a new class and
    two IDs are added after the library has been used, then a name is moved to another ID (table sizes unchanged).  The event is an
    ordinary C04 construction of the (re)registered type through every addressing form.  Runs in a child interpreter only."""
    import os

    if not os.environ.get("VERIF_CHILD"):
        raise RuntimeError("obs_c04_ext edits the library's tables: child interpreters only")
    import pyubx2.ubxtypes_core as core
    from pyubx2 import UBXMessage

    cls, step = case["cls"], case["step"]
    for warm in (("NAV", "NAV-PVT"), ("ACK", "ACK-ACK")):   # the library in use before the application registers anything
        UBXMessage(warm[0], warm[1], 0)
    if bytes([cls]) not in core.UBX_CLASSES:
        core.UBX_CLASSES[bytes([cls])] = "XYZ"
        core.UBX_MSGIDS[bytes([cls, 1])] = "XYZ-STAT"
        core.UBX_MSGIDS[bytes([cls, 7])] = "XYZ-AUX"
        from pyubx2.ubxtypes_get import UBX_PAYLOADS_GET

        UBX_PAYLOADS_GET["XYZ-STAT"] = {"status": "U001", "uptime": "U004"}
        UBX_PAYLOADS_GET["XYZ-AUX"] = {"aux": "U001", "count": "U004"}
        UBXMessage("XYZ", "XYZ-STAT", 0)
        UBXMessage("XYZ", "XYZ-AUX", 0)
    mid = 1
    if step >= 1:     # XYZ-STAT moves from ID 1 to ID 2 (delete + add: the table keeps its size)
        core.UBX_MSGIDS.pop(bytes([cls, 1]), None)
        core.UBX_MSGIDS[bytes([cls, 2])] = "XYZ-STAT"
        mid = 2
    if step >= 2:     # ... and swaps places with XYZ-AUX
        core.UBX_MSGIDS[bytes([cls, 2])] = "XYZ-AUX"
        core.UBX_MSGIDS[bytes([cls, 7])] = "XYZ-STAT"
        mid = 7
    return obs_c04({"m": 0, "cls": cls, "id": mid, "name": "XYZ-STAT", "names": ["XYZ", "XYZ-STAT"], "route": case.get("route", "none"),
                    "P": case.get("P"), "kwargs": None})


def obs_c04_cfg(case):
    """config_set / config_del / config_poll helpers: case {fn, args: [a, b, items]} items with names or ints"""
    from pyubx2 import UBXMessage, UBXReader

    ev = {"prop": "C04", "kind": "construct", "ser": BAD, "payload": BAD, "clsid": [], "forms": [], "reparse": "", "reser": BAD, "built": "", "mixed": []}
    items = [tuple(x) if isinstance(x, list) else x for x in case["items"]]
    try:
        msg = getattr(UBXMessage, case["fn"])(case["a"], case["b"], items)
        s = msg.serialize()
    except Exception as ex:  # noqa: BLE001
        ev["built"] = "exc:" + classify_build_exc(ex)
        return ev
    ev["built"] = "msg"
    ev["ser"] = list(s)
    pl = msg.payload
    ev["payload"] = list(pl) if isinstance(pl, (bytes, bytearray)) else []
    mode = {"config_set": 1, "config_del": 1, "config_poll": 2}[case["fn"]]
    try:
        back = UBXReader.parse(bytes(s), msgmode=mode)
        ev["reparse"] = "msg"
        ev["reser"] = list(back.serialize())
    except Exception as ex:  # noqa: BLE001
        ev["reparse"] = classify_exc(ex)
    return ev


def obs_c03_mt(case):
    """constructions raced by several threads as the first use of the library in a fresh interpreter (+ one made afterwards)"""
    import json
    import os
    import subprocess
    import sys
    import tempfile

    from ..common import VERIF, MachineryError

    d = tempfile.mkdtemp(prefix="c03mt-", dir=os.path.join(VERIF, "build"))
    cin, cout = os.path.join(d, "case.json"), os.path.join(d, "out.json")
    try:
        c = dict(case)
        c["cfgtypes"] = walk.CFGTYPES
        with open(cin, "w") as f:
            json.dump(c, f)
        env = dict(os.environ, PYTHONPATH=VERIF, PYTHONDONTWRITEBYTECODE="1")
        p = subprocess.run([sys.executable, "-m", "harness.drivers.build_child", cin, cout], cwd=VERIF, env=env, capture_output=True, timeout=600)
        if not os.path.exists(cout):
            raise MachineryError("C03 child failed: rc=%s %s" % (p.returncode, p.stderr[-600:]))
        with open(cout) as f:
            ev = json.load(f)
        if ev is None:
            raise MachineryError("C03 child: no event")
        return ev
    finally:
        for x in (cin, cout):
            if os.path.exists(x):
                os.remove(x)
        os.rmdir(d)


from .optchild import obs_opt_single  # noqa: E402

OBSERVERS = {"c03mt": obs_c03_mt, "c03": obs_c03, "c15": obs_c15, "c04": obs_c04, "c04cfg": obs_c04_cfg, "c04ext": obs_c04_ext, "opt": obs_opt_single}
