"""
observer "opt": a batch of cases of another observer evaluated in a child interpreter started with other interpreter options
(python -O / -OO: assert statements and `if __debug__:` blocks are compiled out, docstrings dropped).  What a property states about
refusals and results holds in every interpreter mode the library can be run in; the events are judged like any others.

child usage: python <flags> -m harness.drivers.optchild <cases.json> <out.json>
"""

import importlib
import json
import os
import subprocess
import sys
import tempfile


def obs_opt(case):
    from ..common import VERIF, MachineryError
    from . import walk

    d = tempfile.mkdtemp(prefix="opt-", dir=os.path.join(VERIF, "build"))
    cin, cout = os.path.join(d, "case.json"), os.path.join(d, "out.json")
    try:
        c = dict(case)
        c["cfgtypes"] = walk.CFGTYPES
        with open(cin, "w") as f:
            json.dump(c, f)
        env = dict(os.environ, PYTHONPATH=VERIF, PYTHONDONTWRITEBYTECODE="1")
        env.pop("PYTHONOPTIMIZE", None)
        env["VERIF_CHILD"] = "1"
        env.update(case.get("env", {}))  # other hash seed / time zone / locale variables for the child
        p = subprocess.run([sys.executable] + list(case.get("flags", ["-O"])) + ["-m", "harness.drivers.optchild", cin, cout], cwd=VERIF, env=env,
                           capture_output=True, timeout=900)
        if not os.path.exists(cout):
            raise MachineryError("opt child failed: rc=%s %s" % (p.returncode, p.stderr[-600:]))
        with open(cout) as f:
            return json.load(f)
    finally:
        for x in (cin, cout):
            if os.path.exists(x):
                os.remove(x)
        os.rmdir(d)


def obs_opt_single(case):
    """the registered observer: one inner case, one event (replay files name single cases)"""
    return obs_opt(case)[0]


def main():
    repo = os.environ.get("VERIF_REPO", "/repo")
    sys.path.insert(0, os.path.join(repo, "src"))
    sys.dont_write_bytecode = True
    with open(sys.argv[1]) as f:
        case = json.load(f)
    modname, key = case["obs"].split(":")
    mod = importlib.import_module("harness.drivers." + modname)
    if case.get("cfgtypes") is not None:
        from harness.drivers import walk

        walk.CFGTYPES = case["cfgtypes"]
    obs = mod.OBSERVERS[key]
    out = []
    for c in case["cases"]:
        ev = obs(c)
        out.extend(ev if isinstance(ev, list) else [ev])
    with open(sys.argv[2], "w") as f:
        json.dump(out, f)


if __name__ == "__main__":
    main()
