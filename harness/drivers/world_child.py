"""
Child process for the C13 drivers.  Runs in a FRESH interpreter so that "the result for a given input is the same
whatever was processed before it" is judged against a genuinely fresh evaluation.

usage: python -m harness.drivers.world_child <case.json> <out.json>

Everything observed is public: results of parse / construct / serialize / str, what arrives on file descriptors 1 and 2,
and a digest of the module-level tables.
"""

import hashlib
import json
import os
import sys
import tempfile
import threading


def setup():
    repo = os.environ.get("VERIF_REPO", "/repo")
    src = os.path.join(repo, "src")
    sys.path.insert(0, src)
    sys.dont_write_bytecode = True
    # logging is left at Python's default configuration: a library that logs a warning while parsing / constructing writes to stderr
    # (the operations below read streams with quitonerror=ERR_IGNORE, the one mode in which the reader itself is documented to stay silent)
    import pyubx2  # noqa: F401

    return src


class FdCapture:
    """redirect fd 1 and 2 to a temp file; size() = bytes written so far"""

    def __enter__(self):
        sys.stdout.flush()
        sys.stderr.flush()
        self.tmp = tempfile.TemporaryFile()
        self.saved = (os.dup(1), os.dup(2))
        os.dup2(self.tmp.fileno(), 1)
        os.dup2(self.tmp.fileno(), 2)
        return self

    def size(self):
        sys.stdout.flush()
        sys.stderr.flush()
        return os.fstat(self.tmp.fileno()).st_size

    def text(self):
        self.tmp.seek(0)
        return self.tmp.read(400).decode("latin1")

    def __exit__(self, *a):
        sys.stdout.flush()
        sys.stderr.flush()
        os.dup2(self.saved[0], 1)
        os.dup2(self.saved[1], 2)
        os.close(self.saved[0])
        os.close(self.saved[1])
        self.tmp.close()


def tables_digest():
    from pyubx2 import ubxtypes_configdb, ubxtypes_core, ubxtypes_get, ubxtypes_poll, ubxtypes_set, ubxvariants

    h = hashlib.sha256()
    for obj in (ubxtypes_get.UBX_PAYLOADS_GET, ubxtypes_set.UBX_PAYLOADS_SET, ubxtypes_poll.UBX_PAYLOADS_POLL,
                ubxtypes_core.UBX_MSGIDS, ubxtypes_core.UBX_CLASSES, ubxtypes_core.ATTTYPE,
                ubxtypes_configdb.UBX_CONFIG_DATABASE, ubxtypes_configdb.UBX_CONFIG_STORSIZE,
                {m: sorted(d) for m, d in ubxvariants.VARIANTS.items()}):
        h.update(repr(obj).encode())
    return h.hexdigest()[:24]


def taint(obj):
    """a hostile caller: overwrite in place every mutable value a returned message exposes (lists, bytearrays).
    If the library shares such objects between messages, later results change."""
    try:
        for k, v in vars(obj).items():
            if isinstance(v, list):
                for j in range(len(v)):
                    v[j] = 0xA5
            elif isinstance(v, bytearray):
                for j in range(len(v)):
                    v[j] = 0xA5
    except TypeError:
        pass


def digest(obj):
    d0 = _digest(obj)
    taint(obj)
    return d0


def _digest(obj):
    try:
        d = vars(obj)
        attrs = [(k, repr(v)) for k, v in d.items() if not k.startswith("_")]
    except TypeError:
        attrs = []
    try:
        ser = obj.serialize()
    except Exception as ex:  # noqa: BLE001
        ser = ("err:" + type(ex).__name__).encode()
    try:
        st = str(obj)
    except Exception as ex:  # noqa: BLE001
        st = "err:" + type(ex).__name__
    return hashlib.sha256(repr((type(obj).__name__, bytes(ser), st, attrs)).encode()).hexdigest()[:24]


def run_op(op):
    """op: {kind: parse|construct|config|stream, ...} -> result digest (exceptions are results too)"""
    from pyubx2 import UBXMessage, UBXReader

    try:
        k = op["kind"]
        if k == "parse":
            if op.get("pos"):
                # every option positionally, in the documented order
                m = UBXReader.parse(bytes.fromhex(op["f"]), op.get("mode", 0), op.get("validate", 1), bool(op.get("pbf", 1)))
            else:
                m = UBXReader.parse(bytes.fromhex(op["f"]), msgmode=op.get("mode", 0), validate=op.get("validate", 1), parsebitfield=op.get("pbf", 1))
            return digest(m)
        if k == "construct":
            kw = {}
            for a, v in op["kwargs"].items():
                # every evaluation gets its OWN copy of list values: the message may keep the caller's list, and the hostile-caller
                # tainting below would otherwise alter the operation's input for its next evaluation
                kw[a] = bytes.fromhex(v["hex"]) if isinstance(v, dict) and "hex" in v else (list(v) if isinstance(v, list) else v)
            if op.get("pos"):
                m = UBXMessage(op["cls"], op["id"], op["mode"], bool(op.get("pbf", 1)), **kw)
            else:
                m = UBXMessage(bytes([op["cls"]]), bytes([op["id"]]), op["mode"], parsebitfield=op.get("pbf", 1), **kw)
            return digest(m)
        if k == "construct_names":
            m = UBXMessage(op["cls"], op["id"], op["mode"])
            return digest(m)
        if k == "config":
            items = [tuple(x) if isinstance(x, list) else x for x in op["items"]]
            m = getattr(UBXMessage, op["fn"])(op["a"], op["b"], items)
            return digest(m)
        if k == "stream":
            import io

            out = []
            rdr = (UBXReader(io.BytesIO(bytes.fromhex(op["S"])), op.get("mode", 0), 1, 7, 0, True, 1, 4096, True, None) if op.get("pos")
                   else UBXReader(io.BytesIO(bytes.fromhex(op["S"])), quitonerror=0, msgmode=op.get("mode", 0)))
            for raw, parsed in rdr:
                out.append((bytes(raw), None if parsed is None else digest(parsed)))
            return hashlib.sha256(repr(out).encode()).hexdigest()[:24]
        return "err:unknown-op"
    except Exception as ex:  # noqa: BLE001
        return "exc:" + type(ex).__name__


# ------------------------------------------------------------------------------------- history
def history(case, cap):
    """events: [kind, worker, input, result, outbytes, tables]"""
    ev = []
    t0 = tables_digest()
    ops = case["ops"]

    def do(w, idx, tag):
        ev.append(["begin", w, idx, "", cap.size(), ""])
        r = run_op(ops[idx])
        ev.append(["end", w, idx, r, cap.size(), tables_digest() if tag else ""])

    for idx in case["probes"]:  # fresh evaluation of the probes
        do(0, idx, True)
    for idx in case["history"]:
        do(0, idx, True)
    for idx in case["probes"]:  # the same probes after the history
        do(0, idx, True)
    return {"t0": t0, "events": ev}


# ------------------------------------------------------------------------------------ schedules
class LineScheduler:
    """Deterministic interleaving of worker threads at source-line granularity (lines of pyubx2 code)."""

    def __init__(self, src, nworkers):
        self.src = src
        self.main = threading.Semaphore(0)
        self.sem = {w: threading.Semaphore(0) for w in range(1, nworkers + 1)}
        self.budget = {w: 0 for w in self.sem}
        self.jobs = {w: None for w in self.sem}
        self.results = {w: None for w in self.sem}
        self.state = {w: "idle" for w in self.sem}
        self.lines = {w: 0 for w in self.sem}
        self.threads = {}
        self.stop = False

    def _tracer(self, w):
        def local(frame, event, arg):
            if event == "line":
                self.lines[w] += 1
                self.budget[w] -= 1
                if self.budget[w] <= 0:
                    self.main.release()
                    self.sem[w].acquire()
            return local

        def glob(frame, event, arg):
            if frame.f_code.co_filename.startswith(self.src):
                return local
            return None

        return glob

    def _body(self, w):
        while True:
            self.sem[w].acquire()
            if self.stop:
                return
            op = self.jobs[w]
            sys.settrace(self._tracer(w))
            try:
                r = run_op(op)
            finally:
                sys.settrace(None)
            self.results[w] = r
            self.state[w] = "finished"
            self.main.release()

    def start(self):
        for w in self.sem:
            t = threading.Thread(target=self._body, args=(w,), daemon=True)
            self.threads[w] = t
            t.start()

    def begin(self, w, op):
        self.jobs[w] = op
        self.results[w] = None
        self.state[w] = "running"
        self.lines[w] = 0
        self.first = True

    def run(self, w, nlines):
        """let worker w execute nlines source lines (or finish)"""
        if self.state[w] != "running":
            return
        self.budget[w] = nlines
        self.sem[w].release()
        self.main.acquire()

    def finish(self, w):
        while self.state[w] == "running":
            self.run(w, 10 ** 9)
        return self.results[w]

    def shutdown(self):
        self.stop = True
        for w in self.sem:
            self.sem[w].release()


def measure_lines(src, op):
    n = [0]

    def local(frame, event, arg):
        if event == "line":
            n[0] += 1
        return local

    def glob(frame, event, arg):
        return local if frame.f_code.co_filename.startswith(src) else None

    sys.settrace(glob)
    try:
        run_op(op)
    finally:
        sys.settrace(None)
    return n[0]


def scheduled(case, cap, src):
    """replay a TLC schedule [[w, kind, input], ...]; inputs a/b/c are mapped to concrete operations"""
    ev = []
    t0 = tables_digest()
    ops = case["ops"]
    amap = case["map"]  # {"a": idx, ...}
    steps = case["steps"]
    nw = max(x[0] for x in case["schedule"])
    seqfirst = case.get("seqfirst", 1)

    def sequential():
        for name, idx in sorted(amap.items()):
            ev.append(["begin", 0, idx, "", cap.size(), ""])
            ev.append(["end", 0, idx, run_op(ops[idx]), cap.size(), tables_digest()])

    if seqfirst:
        # reference results first (detects state damaged by the interleaving)
        sequential()
        quantum = {idx: max(1, measure_lines(src, ops[idx]) // (steps + 1)) for idx in set(amap.values())}
    else:
        # the interleaving is the very FIRST use of the library in this interpreter (lazy initialisation, first-use races);
        # the reference results are taken afterwards.  Nothing may be executed beforehand, so the quantum is given, not measured.
        quantum = {idx: case.get("quantum", 25) for idx in set(amap.values())}
    ls = LineScheduler(src, nw)
    ls.start()
    cur = {}
    try:
        for w, kind, name in case["schedule"]:
            idx = amap[name]
            if kind == "begin":
                ls.begin(w, ops[idx])
                cur[w] = idx
                ev.append(["begin", w, idx, "", cap.size(), ""])
            elif kind == "micro":
                ls.run(w, quantum[idx])
            else:
                r = ls.finish(w)
                ev.append(["end", w, idx, r, cap.size(), tables_digest()])
    finally:
        ls.shutdown()
    if not seqfirst:
        sequential()
    return {"t0": t0, "events": ev}


def free_threads(case, cap):
    """free-running threads hammering the same operations with a tiny switch interval"""
    ev = []
    t0 = tables_digest()
    ops = case["ops"]
    idxs = case["probes"]
    seqfirst = case.get("seqfirst", 1)

    def sequential():
        for idx in idxs:
            ev.append(["begin", 0, idx, "", cap.size(), ""])
            ev.append(["end", 0, idx, run_op(ops[idx]), cap.size(), tables_digest()])

    if seqfirst:
        sequential()
    old = sys.getswitchinterval()
    sys.setswitchinterval(1e-6)
    lock = threading.Lock()
    out = []

    def body(w):
        for rep in range(case.get("reps", 20)):
            for idx in (idxs if w % 2 else list(reversed(idxs))):
                r = run_op(ops[idx])
                with lock:
                    out.append((w, idx, r))

    ths = [threading.Thread(target=body, args=(w,)) for w in range(1, case.get("threads", 4) + 1)]
    try:
        for t in ths:
            t.start()
        for t in ths:
            t.join(120)
    finally:
        sys.setswitchinterval(old)
    for w, idx, r in out:
        ev.append(["begin", w, idx, "", 0, ""])
        ev.append(["end", w, idx, r, 0, ""])
    if not seqfirst:
        sequential()
    ev.append(["begin", 0, idxs[0], "", cap.size(), ""])
    ev.append(["end", 0, idxs[0], run_op(ops[idxs[0]]), cap.size(), tables_digest()])
    return {"t0": t0, "events": ev}


# ----------------------------------------------------------------------------------- attributes
def attrs(case, cap):
    """set / delete attributes of constructed messages: [op, namekind, outcome, serSame, outbytes]"""
    from pyubx2 import UBXMessage, UBXReader
    from pyubx2.exceptions import UBXMessageError

    ev = []
    for item in case["msgs"]:
        try:
            if item["how"] == "parse":
                m = UBXReader.parse(bytes.fromhex(item["f"]), msgmode=item.get("mode", 0), parsebitfield=item.get("pbf", 1))
            else:
                kw = {a: (bytes.fromhex(v["hex"]) if isinstance(v, dict) else v) for a, v in item["kwargs"].items()}
                m = UBXMessage(bytes([item["cls"]]), bytes([item["id"]]), item["mode"], **kw)
        except Exception:  # noqa: BLE001
            continue
        # "a UBXMessage after construction": also the message as it comes out of pickle (multiprocessing), copy.deepcopy, copy.copy
        tw = item.get("twin", 0)
        if tw:
            import copy
            import pickle

            try:
                m = pickle.loads(pickle.dumps(m)) if tw == 1 else copy.deepcopy(m) if tw == 2 else copy.copy(m)
            except Exception:  # noqa: BLE001 - not copyable: nothing to probe
                continue
        before = m.serialize()
        # looking at a message does not change it: after hashing it, comparing it, using it as a dictionary key, copying and pickling
        # it, listing its attributes ... it prints, serialises and lists exactly as before
        try:
            shown = (str(m), repr(m), repr(sorted(vars(m))), m.serialize())
        except Exception:  # noqa: BLE001 - messages that cannot be printed are C08's business
            shown = None
        if shown is not None:
            import copy as _copy
            import pickle as _pickle

            for oname, ofn in (("hash", lambda: hash(m)), ("dict-key", lambda: {m: 1}[m]), ("set", lambda: m in {m}), ("eq", lambda: (m == m, m != m, m == 1)),
                               ("bool-len", lambda: (bool(m), getattr(m, "__len__", lambda: 0)())), ("copy", lambda: _copy.copy(m)), ("deepcopy", lambda: _copy.deepcopy(m)),
                               ("pickle", lambda: _pickle.dumps(m)), ("dir-vars", lambda: (dir(m), vars(m), m.__dict__.keys())), ("format", lambda: (format(m), "%s" % (m,), f"{m!r}"))):
                try:
                    ofn()
                except Exception:  # noqa: BLE001 - an observation that is not supported is not a change
                    pass
                try:
                    now = (str(m), repr(m), repr(sorted(vars(m))), m.serialize())
                except Exception as ex:  # noqa: BLE001
                    now = ("raised:" + type(ex).__name__,)
                ev.append(["observe", oname, "unchanged" if now == shown else "changed", 1 if now[-1:] == shown[-1:] else 0, cap.size()])
                if now != shown:
                    break
        d = [k for k in vars(m)]
        public = [k for k in d if not k.startswith("_")]
        private = [k for k in d if k.startswith("_")]
        # names the message's DEFINITION knows although the object does not expose them (high-precision companions, reserved flags ...)
        hidden = [n for n in item.get("defnames", []) if n not in d][:6]
        names = [("existing", n) for n in public[:3] + public[-2:]] + [("private", n) for n in private] + [("definition", n) for n in hidden] + \
                [("new", "_HPbrandNew"), ("new", "reserved99"), ("new", "__class__x"), ("new", "payload_01")] + \
                [("new", "brandNewAttr"), ("new", "_brandNewPrivate"), ("property", "identity"), ("property", "payload"),
                 ("property", "length"), ("property", "msgmode"), ("method", "serialize")]
        def _equal_other(v):
            """a value that compares equal to v but is another object of another type"""
            if isinstance(v, bool):
                return int(v)
            if isinstance(v, int):
                return True if v == 1 else (False if v == 0 else float(v)) if abs(v) < 2 ** 53 else v
            if isinstance(v, float):
                return int(v) if v == int(v) else v
            if isinstance(v, bytes):
                return bytearray(v)
            if isinstance(v, list):
                return list(v)
            return v

        _MISSING = object()
        for nk, n in names:
            # "assigning ANY attribute": a foreign value, the attribute's own current value, and an equal value of another type
            for op in ("set", "set:same", "set:equal", "del"):
                cur = vars(m).get(n, _MISSING)
                if op in ("set:same", "set:equal") and (cur is _MISSING or nk not in ("existing", "private")):
                    continue
                try:
                    if op == "set":
                        setattr(m, n, 42)
                    elif op == "set:same":
                        setattr(m, n, cur)
                    elif op == "set:equal":
                        setattr(m, n, _equal_other(cur))
                    else:
                        delattr(m, n)
                    outcome = "accepted"
                except UBXMessageError:
                    outcome = "UBXMessageError"
                except Exception as ex:  # noqa: BLE001
                    outcome = "other:" + type(ex).__name__
                try:
                    same = 1 if m.serialize() == before else 0
                except Exception:  # noqa: BLE001
                    same = 0
                ev.append([op.split(":")[0], nk + ":" + n, outcome, same, cap.size()])
                if same == 0 or outcome == "accepted":
                    # rebuild the message so that later probes start from an intact object
                    try:
                        m = UBXReader.parse(before, msgmode=m.msgmode) if item["how"] == "parse" else m
                    except Exception:  # noqa: BLE001
                        pass
    return {"t0": "", "events": ev}


def main():
    src = setup()
    with open(sys.argv[1]) as f:
        case = json.load(f)
    with FdCapture() as cap:
        try:
            if case["mode"] == "history":
                res = history(case, cap)
            elif case["mode"] == "scheduled":
                res = scheduled(case, cap, src)
            elif case["mode"] == "threads":
                res = free_threads(case, cap)
            else:
                res = attrs(case, cap)
            res["outsize"] = cap.size()
            res["outtext"] = cap.text() if res["outsize"] else ""
            res["crash"] = ""
        except Exception as ex:  # noqa: BLE001
            import traceback

            res = {"t0": "", "events": [], "outsize": 0, "outtext": "", "crash": type(ex).__name__ + ": " + str(ex) + traceback.format_exc()[-800:]}
    with open(sys.argv[2], "w") as f:
        json.dump(res, f)


if __name__ == "__main__":
    main()
