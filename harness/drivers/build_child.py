"""
Child process for the "concurrent first use" pass of C03: in a FRESH interpreter several threads build grouped messages from keywords
at the same moment, as the very first use of the library; afterwards ONE more construction is made sequentially.  The event returned
(a thread's, or the sequential one made after the race) is judged by T_Build like any other construction.

usage: python -m harness.drivers.build_child <case.json> <out.json>
"""

import json
import os
import sys
import threading


def fresh_library():
    """forget the library (module-level state included) and import it anew"""
    for name in [n for n in sys.modules if n == "pyubx2" or n.startswith("pyubx2.")]:
        del sys.modules[name]
    import pyubx2  # noqa: F401


def sweep(case, build, repo):
    """single pre-emptions at MANY source lines, each against a freshly imported library; the event handed back for judgement is the
    first one whose built payload deviates from the payload the keywords were decoded from (else the last one) - a selection, not a verdict"""
    chosen = None
    last = None
    for k in case["ks"]:
        fresh_library()
        out = {}
        c = dict(case, preempt=k)
        preempt(c, build, repo, collect=out)
        for tag, inp in (("after", case["after"]), ("a", case["racers"][0]), ("b", case["racers"][1 % len(case["racers"])])):
            ev = out.get(tag)
            if ev is None:
                continue
            last = ev if tag == "after" else last
            if chosen is None and (ev.get("out") != "msg" or bytes(ev.get("P", [])).hex() != inp["P0"]):
                chosen = ev
        if chosen is not None:
            break
    with open(sys.argv[2], "w") as f:
        json.dump(chosen if chosen is not None else last, f)


def preempt(case, build, repo, collect=None):
    """deterministic single pre-emption: worker A is suspended after its k-th source line inside the library, worker B then runs its
    whole construction, A resumes; a third construction follows sequentially (the first use of the library in this interpreter)"""
    src = os.path.join(repo, "src")
    k = case["preempt"]
    res = {}
    reached = threading.Event()
    go = threading.Event()
    count = [0]

    def local(frame, event, arg):
        if event == "line":
            count[0] += 1
            if count[0] == k:
                reached.set()
                go.wait(60)
        return local

    def glob(frame, event, arg):
        return local if frame.f_code.co_filename.startswith(src) else None

    def body_a():
        sys.settrace(glob)
        try:
            res["a"] = build.obs_c03(case["racers"][0])
        finally:
            sys.settrace(None)
            reached.set()

    ta = threading.Thread(target=body_a)
    ta.start()
    reached.wait(60)
    tb = threading.Thread(target=lambda: res.__setitem__("b", build.obs_c03(case["racers"][1 % len(case["racers"])])))
    tb.start()
    tb.join(120)
    go.set()
    ta.join(120)
    res["after"] = build.obs_c03(case["after"])
    if collect is not None:
        collect.update(res)
        return
    want = {-1: "after", 0: "a", 1: "b"}[case.get("thread_index", -1)]
    with open(sys.argv[2], "w") as f:
        json.dump(res.get(want), f)


def main():
    repo = os.environ.get("VERIF_REPO", "/repo")
    sys.path.insert(0, os.path.join(repo, "src"))
    sys.dont_write_bytecode = True
    with open(sys.argv[1]) as f:
        case = json.load(f)
    import pyubx2  # noqa: F401 - importing is not using

    from harness.drivers import build, walk

    walk.CFGTYPES = case.get("cfgtypes")
    if case.get("ks") is not None:
        return sweep(case, build, repo)
    if case.get("preempt") is not None:
        return preempt(case, build, repo)
    n = case.get("threads", 4)
    res = [None] * n
    bar = threading.Barrier(n)
    old = sys.getswitchinterval()
    sys.setswitchinterval(1e-6)

    def body(i):
        bar.wait()
        res[i] = build.obs_c03(case["racers"][i % len(case["racers"])])

    ths = [threading.Thread(target=body, args=(i,)) for i in range(n)]
    for t in ths:
        t.start()
    for t in ths:
        t.join(120)
    sys.setswitchinterval(old)
    want = case.get("thread_index", -1)
    out = build.obs_c03(case["after"]) if want < 0 else res[want % n]
    with open(sys.argv[2], "w") as f:
        json.dump(out, f)


if __name__ == "__main__":
    main()
