"""observer "race": a deterministic pre-emption sweep of another observer in a child interpreter (see race_child)"""

import json
import os
import subprocess
import sys
import tempfile


def obs_race(case):
    from ..common import VERIF, MachineryError
    from . import walk

    d = tempfile.mkdtemp(prefix="race-", dir=os.path.join(VERIF, "build"))
    cin, cout = os.path.join(d, "case.json"), os.path.join(d, "out.json")
    try:
        c = dict(case)
        c["cfgtypes"] = walk.CFGTYPES
        with open(cin, "w") as f:
            json.dump(c, f)
        env = dict(os.environ, PYTHONPATH=VERIF, PYTHONDONTWRITEBYTECODE="1")
        p = subprocess.run([sys.executable, "-m", "harness.drivers.race_child", cin, cout], cwd=VERIF, env=env, capture_output=True, timeout=900)
        if not os.path.exists(cout):
            raise MachineryError("race child failed: rc=%s %s" % (p.returncode, p.stderr[-600:]))
        with open(cout) as f:
            ev = json.load(f)
        if ev is None:
            raise MachineryError("race child: no event")
        return ev
    finally:
        for x in (cin, cout):
            if os.path.exists(x):
                os.remove(x)
        os.rmdir(d)
