"""
Child process for deterministic pre-emption sweeps of ANY observer (generalises build_child.sweep):

worker A runs  observer(racers[0])  and is suspended after its k-th source line inside the library; worker B then runs
observer(racers[1]) completely; A resumes; afterwards  observer(after)  runs sequentially.  This is repeated for every k in case["ks"]
(with a freshly imported library each time when case["fresh"], i.e. as the first use of the library; otherwise in a warmed-up
interpreter, i.e. the steady state).  The event handed back for judgement is the first one that differs from what the same observer
returned for the same input without any concurrency (else the last sequential one) - a selection, not a verdict: the event is judged
by the property's TLC acceptor like any other observation.

usage: python -m harness.drivers.race_child <case.json> <out.json>
"""

import importlib
import json
import os
import sys
import threading


def fresh_library():
    for name in [n for n in sys.modules if n == "pyubx2" or n.startswith("pyubx2.")]:
        del sys.modules[name]
    import pyubx2  # noqa: F401


def one(obs, case, k, src):
    res = {}
    reached = threading.Event()
    go = threading.Event()
    count = [0]

    def local(frame, event, arg):
        if event == "line":
            count[0] += 1
            if count[0] == k:
                reached.set()
                go.wait(60)
        return local

    def glob(frame, event, arg):
        return local if frame.f_code.co_filename.startswith(src) else None

    def body_a():
        sys.settrace(glob)
        try:
            res["a"] = obs(case["racers"][0])
        finally:
            sys.settrace(None)
            reached.set()

    ta = threading.Thread(target=body_a)
    ta.start()
    reached.wait(60)
    tb = threading.Thread(target=lambda: res.__setitem__("b", obs(case["racers"][1 % len(case["racers"])])))
    tb.start()
    tb.join(120)
    go.set()
    ta.join(120)
    res["after"] = obs(case["after"])
    return res, count[0]


def main():
    repo = os.environ.get("VERIF_REPO", "/repo")
    src = os.path.join(repo, "src")
    sys.path.insert(0, src)
    sys.dont_write_bytecode = True
    with open(sys.argv[1]) as f:
        case = json.load(f)
    import pyubx2  # noqa: F401

    modname, key = case["obs"].split(":")
    mod = importlib.import_module("harness.drivers." + modname)
    if case.get("cfgtypes") is not None:
        from harness.drivers import walk

        walk.CFGTYPES = case["cfgtypes"]
    obs = mod.OBSERVERS[key]
    inputs = {"a": case["racers"][0], "b": case["racers"][1 % len(case["racers"])], "after": case["after"]}
    ref = {t: obs(i) for t, i in inputs.items()}
    chosen, last = None, ref["after"]
    ks = case["ks"]
    if ks == "all":
        # every source line worker A executes inside the library (measured here, on this tree)
        _, n = one(obs, case, -1, src)
        ks = range(1 + case.get("part", 0), n + 2, case.get("parts", 1))
    for k in ks:
        if case.get("fresh"):
            fresh_library()
        res, _ = one(obs, case, k, src)
        for tag in ("a", "b", "after"):
            ev = res.get(tag)
            if ev is None:
                continue
            if tag == "after":
                last = ev
            if chosen is None and ev != ref[tag]:
                chosen = ev
        if chosen is not None:
            break
    with open(sys.argv[2], "w") as f:
        json.dump(chosen if chosen is not None else last, f)


if __name__ == "__main__":
    main()
