"""
Socket drivers (C10): a scripted socket (socket.socket subclass, as the repository's own DummySocket) whose recv()
delivers a chosen segmentation and then closes or times out, and a recording wrapper around one end of a real
socketpair fed by a concurrent sender thread.  Every recv() result is logged by the socket object itself.
"""

import socket
import threading
import time

from . import reader as rd


class ScriptSock(socket.socket):
    def __init__(self, segs, end, events, dgram=False, delay=0.0, timeout=None):
        """dgram: a SOCK_DGRAM socket (UDP): each recv() returns one datagram = one segment (the drivers keep bufsize >= the largest
        segment, as an application must, or the OS truncates).  delay / timeout: a socket with a positive timeout whose data arrive in
        pieces, each well within the timeout (real time: delay seconds pass before every recv() returns)"""
        if dgram:
            super().__init__(socket.AF_INET, socket.SOCK_DGRAM)
        else:
            super().__init__()
        self._segs = [bytes(s) for s in segs if len(s) > 0]
        self._end = end
        self._events = events
        self._delay = delay
        if timeout is not None:
            self.settimeout(timeout)

    def recv(self, bufsize, *a):  # noqa: D401
        if self._delay:
            time.sleep(self._delay)
        if not self._segs:
            self._events.append(["recv", 0])
            if self._end == "timeout":
                raise TimeoutError("timed out")
            if self._end == "reset":
                raise ConnectionResetError(104, "Connection reset by peer")
            return b""
        h = self._segs[0]
        d = h[:bufsize]
        if len(d) == len(h):
            self._segs.pop(0)
        else:
            self._segs[0] = h[len(d):]
        self._events.append(["recv", len(d)])
        return d

    def send(self, data, *a):
        self._events.append(["send", list(bytes(data))])
        if len(data) == 9:
            raise TimeoutError("send timed out")  # a transient failure of the outbound side: must not affect what is read afterwards
        return len(data)


class ScriptSockTLS(ScriptSock):
    """a socket that ALSO has a read() of its own, as ssl.SSLSocket does (returns at most the rest of the current record):
    it is a socket all the same and must be wrapped like one"""

    def read(self, n=1024, buffer=None):
        return self.recv(n)


class RecSock(socket.socket):
    """records what a real socket's recv() returns"""

    def __init__(self, real, events):
        super().__init__()
        self._real = real
        self._events = events

    def recv(self, bufsize, *a):
        try:
            d = self._real.recv(bufsize)
        except (TimeoutError, OSError):
            self._events.append(["recv", 0])
            raise
        self._events.append(["recv", len(d)])
        return d


def segments(S, cuts):
    out = []
    p = 0
    for c in list(cuts) + [len(S)]:
        if c > p:
            out.append(S[p:c])
            p = c
    return out


def obs_wrapper(case):
    """case: {S hex, cuts [positions], bufsize, end, calls [[op, n]...]}"""
    from pyubx2.socket_wrapper import SocketWrapper

    S = bytes.fromhex(case["S"])
    events = []
    sock = ScriptSock(segments(S, case["cuts"]), case["end"], events)
    try:
        w = SocketWrapper(sock, bufsize=case["bufsize"])
        for op, n in case["calls"]:
            if op == "write":
                data = bytes((0xB5, 0x62, n % 256)) * (n % 5)
                events.append(["call", op, n, list(data)])
                try:
                    r = w.write(data)
                    events.append(["ret", [r] if isinstance(r, int) else [-1]])
                except Exception as ex:  # noqa: BLE001
                    events.append(["ret", [-2, len(type(ex).__name__)]])
                continue
            events.append(["call", op, n])
            try:
                r = w.read(n) if op == "read" else w.readline()
                events.append(["ret", list(r) if isinstance(r, (bytes, bytearray)) else [-1]])
            except Exception as ex:  # noqa: BLE001
                events.append(["ret", [-2, len(type(ex).__name__)]])
    finally:
        sock.close()
    return {"kind": "wrapper", "S": list(S), "events": events, "bufsize": case["bufsize"], "scripted": 1}


_KEEP = []


def _reader_items(stream, kw, how=0):
    """how: 0 plain; 1 the application polls - it writes a poll request through the reader's stream after every item; 2 the socket is
    handed over already wrapped (SocketWrapper made by the caller); 3 a first reader delivers one item, a second reader built on the
    first one's datastream delivers the rest"""
    from pyubx2 import UBXReader

    items, pd = [], []
    end = "eof"
    try:
        if how == 2 and "bufsize" in kw:
            from pyubx2.socket_wrapper import SocketWrapper

            kw2 = dict(kw)
            stream = SocketWrapper(stream, bufsize=kw2.pop("bufsize"))
            rdr = UBXReader(stream, **kw2)
        else:
            rdr = UBXReader(stream, **kw)
        _KEEP.append(rdr)  # earlier readers / connections stay referenced while later ones are opened (a reconnecting application)
        del _KEEP[:-2]
        if how == 3 and "bufsize" in kw:
            raw, parsed = rdr.read()
            if raw is not None:
                items.append(bytes(raw))
                pd.append(rd.digest(parsed))
                kw2 = dict(kw)
                kw2.pop("bufsize")
                rdr = UBXReader(rdr.datastream, **kw2)
        for raw, parsed in rdr:
            items.append(bytes(raw))
            pd.append(rd.digest(parsed))
            if how == 1 and hasattr(rdr.datastream, "write"):
                try:
                    rdr.datastream.write(b"\xb5\x62\x0a\x04\x00\x00\x0e\x34")
                except Exception:  # noqa: BLE001 - a failing send is the outbound side's business
                    pass
    except rd.HangGuard:
        end = "hang"
    except Exception as ex:  # noqa: BLE001
        end = rd.family(ex)
    return items, pd, end


def obs_reader(case):
    """case: {S hex, cuts, bufsize, end, real: 0|1, chunks (real: sizes the sender writes), quit, msgmode...}"""
    import io

    S = bytes.fromhex(case["S"])
    kw = dict(quitonerror=case.get("quit", 1), errorhandler=lambda e: None, msgmode=case.get("msgmode", 0),
              validate=case.get("validate", 1), parsebitfield=case.get("pbf", 1), bufsize=case["bufsize"],
              protfilter=case.get("filter", 7), parsing=bool(case.get("parsing", 1)), labelmsm=case.get("labelmsm", 1))
    fkw = dict(kw)
    fkw.pop("bufsize")
    fitems, fpd, _ = _reader_items(io.BytesIO(S), fkw)
    events = []
    if case.get("real"):
        a, b = socket.socketpair()
        stop = threading.Event()

        def sender():
            p = 0
            try:
                for c in case["chunks"]:
                    if p >= len(S):
                        break
                    a.sendall(S[p:p + c])
                    p += c
                    if case.get("pause"):
                        time.sleep(case["pause"])
                if p < len(S):
                    a.sendall(S[p:])
                if case["end"] == "close":
                    a.close()
                else:
                    stop.wait(5.0)
            except OSError:
                pass

        th = threading.Thread(target=sender, daemon=True)
        if case["end"] == "timeout":
            b.settimeout(0.4)
        th.start()
        sock = RecSock(b, events)
        try:
            sitems, spd, send = _reader_items(sock, kw)
        finally:
            stop.set()
            th.join(6)
            for x in (a, b, sock):
                try:
                    x.close()
                except OSError:
                    pass
    else:
        sock = (ScriptSockTLS if case.get("tls") else ScriptSock)(segments(S, case["cuts"]), case["end"], events, dgram=bool(case.get("dgram")),
                                                                  delay=case.get("delay", 0.0), timeout=case.get("timeout"))
        try:
            sitems, spd, send = _reader_items(sock, kw, how=case.get("how", 0))
        finally:
            sock.close()
    it = rd.Interner()
    return {"kind": "reader", "S": list(S) if len(S) <= 64 else list(S[:64]), "received": sum(e[1] for e in events if e[0] == "recv") + (len(S) - len(S)),
            "slen": len(S), "fileitems": [it.id(x) for x in fitems], "sockitems": [it.id(x) for x in sitems],
            "filepd": fpd, "sockpd": spd, "sockend": send, "nrecv": len(events)}


OBSERVERS = {"wrapper": obs_wrapper, "sockreader": obs_reader}
