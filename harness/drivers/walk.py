"""
Payload-walk drivers (C02 C03 C08 C15 C16 C17): build real payloads from TLC-generated layouts
(spec -> code), run the real parser / constructor on them and project what comes back onto the
specification's abstract values (bytes of a field, bits of a flag).

The projection never consults pyubx2: integers via int.to_bytes, floats via struct, scaled values via
exact rationals (fractions.Fraction).
"""

import json
import math
import struct
from fractions import Fraction

from ..common import MachineryError, frame
from .frames import classify_exc
from . import envrot, history

HALF_E12 = Fraction(1, 2 * 10 ** 12)
CFGTYPES = None  # name -> type of the configuration database (set by the property module before forking)


# ------------------------------------------------------------------------------ layouts from TLC
def load_layouts(ctx, cfg="MC_Walk_quick.cfg"):
    """run MC_Walk (design lemma GenParseAgree + dump) and return the dumped layouts"""
    from .. import tlc

    lays = []

    def sink(s):
        if s.startswith("{"):
            lays.append(json.loads(s))

    r = tlc.run("MC_Walk", cfg, ctx.work, env={"DEFS_FILE": ctx.defs_file()}, print_sink=sink, timeout=900)
    if r.violated:
        raise MachineryError("design-level walk model violates %s\n%s" % (r.violated, r.raw_tail[-2000:]))
    ctx.states += r.distinct
    ctx.transitions += r.generated
    d = r.as_dict()
    d["module"], d["cfg"], d["layouts_dumped"] = "MC_Walk", cfg, len(lays)
    ctx.tlc_runs.append(d)
    return lays


def collision_layouts(ctx, lays):
    """multi-variant messages: layouts of one variant whose repeat count makes the payload exactly as long as ANOTHER variant of the
    same class/ID (a selector must keep following its discriminator, not the length).  The counts are computed from the layouts TLC
    produced for the working tree; TLC then generates the layouts for those counts (configuration written to the scratch directory)."""
    import os

    fam = {}
    for l in lays:
        if l["reachable"] and l["pbf"] and l["len"] is not None and l["len"] >= 0:
            fam.setdefault((l["m"], l["cls"], l["id"]), {}).setdefault(l["name"], {})[l["c"]] = l["len"]
    want = {}
    for key, names in fam.items():
        if len(names) < 2:
            continue
        for a, la in names.items():
            if 0 not in la or 1 not in la or la[1] <= la[0]:
                continue
            step = la[1] - la[0]
            for b, lb in names.items():
                if b == a:
                    continue
                for L in set(lb.values()):
                    if L > la[0] and (L - la[0]) % step == 0:
                        c = (L - la[0]) // step
                        if 3 < c <= 4000:
                            want.setdefault(a, set()).add(c)
    if not want:
        return []
    counts = sorted(set().union(*want.values()))[:12]
    cfg = os.path.join(ctx.work, "MC_Walk_collide.cfg")
    with open(cfg, "w") as f:
        f.write("SPECIFICATION Spec\nCONSTANTS\n  Counts = {%s}\n  Dump = TRUE\n  Only = {%s}\nINVARIANT GenParseAgree\nINVARIANT DumpLayout\nCHECK_DEADLOCK FALSE\n"
                % (", ".join(str(c) for c in counts), ", ".join('"%s"' % n for n in sorted(want))))
    out = [l for l in load_layouts(ctx, cfg) if l["c"] in want.get(l["name"], ())]
    return out


def modeint(lay):
    return lay["m"]


# ------------------------------------------------------------------------------------- filling
PATTERNS = ("zero", "ones", "min", "max", "one", "count", "rand", "rand2", "small", "fpedge", "ctrl", "fint")


def _field_bytes(e, pattern, rng, k):
    n = e["size"]
    t = e["t"][:1]
    if pattern == "zero":
        return bytes(n)
    if pattern == "ones":
        return b"\xff" * n
    if pattern == "min":  # most negative for signed, 0x80.. generally
        return bytes(n - 1) + b"\x80"
    if pattern == "max":
        return b"\xff" * (n - 1) + b"\x7f"
    if pattern == "one":
        return b"\x01" + bytes(n - 1)
    if pattern == "count":
        return bytes(((k + j + 1) & 0xFF) for j in range(n))
    if pattern == "fpedge":
        # IEEE-754 edge values in floating point fields (+-infinity, largest finite, smallest subnormal, -0.0); integers: most negative + 1
        if t == "R":
            v = (float("inf"), float("-inf"), 3.4028234663852886e38 if n == 4 else 1.7976931348623157e308, 1e-45 if n == 4 else 5e-324, -0.0)[(k + rng.randrange(5)) % 5]
            return struct.pack("<f" if n == 4 else "<d", v)
        return b"\x01" + bytes(n - 2) + b"\x80" if n > 1 else b"\x81"
    if pattern == "fint":
        # floating point fields holding INTEGRAL values beyond the 32 / 64-bit integer ranges and negative ones (an application may
        # hand them back as Python ints); everything else zero
        if t == "R":
            v = (-85.0, float(2 ** 40), -float(2 ** 33), 16777216.0, -1.0, float(2 ** 70) if n == 8 else float(2 ** 100))[(k + rng.randrange(6)) % 6]
            return struct.pack("<f" if n == 4 else "<d", v)
        return bytes(n)
    if pattern == "ctrl":
        # values that are control characters when read as text: line feed, carriage return, NUL, tab, escape (10, 13, 0, 9, 27) in the
        # first byte of every field - selectors, port IDs, protocol IDs and indices of 10 in particular
        return bytes(((10, 13, 9, 27, 10, 0)[(k + rng.randrange(6)) % 6],)) + bytes(n - 1)
    if pattern == "small":
        # small values (0..3) in every field: versions, enumerations, selectors and flags take their meaningful values together
        if t == "R":
            return struct.pack("<f" if n == 4 else "<d", float(rng.randrange(0, 4)))
        if t == "C":
            return bytes(rng.randrange(0x30, 0x34) for _ in range(n))
        if t == "A":
            return bytes(rng.randrange(0, 4) for _ in range(n))
        return bytes((rng.randrange(0, 4),)) + bytes(n - 1)
    if t == "R":
        # random but mostly finite floats
        if rng.random() < 0.9:
            v = rng.choice((1.0, -1.0)) * rng.random() * 10 ** rng.randrange(-6, 9)
            return struct.pack("<f" if n == 4 else "<d", v)
    if t == "C":
        return bytes(rng.randrange(0x20, 0x7F) for _ in range(n))
    return rng.randbytes(n)


def set_bits(buf, off, bo, w, v):
    for b in range(w):
        byte = off + (bo + b) // 8
        bit = (bo + b) % 8
        if byte < len(buf):
            if (v >> b) & 1:
                buf[byte] |= 1 << bit
            else:
                buf[byte] &= ~(1 << bit) & 0xFF


def fill(lay, pattern, rng, cfgdb=None):
    """payload bytes for a TLC layout"""
    entries = lay["lay"]
    buf = bytearray()
    total = lay["len"]
    tail = b""
    for k, e in enumerate(entries):
        if e["k"] == "f":
            if e["size"] < 0:  # CH: rest of payload, ASCII text
                # (text as receivers send it: also with line ends, tabs, trailing blanks and NULs at either end)
                txt = {"zero": b"", "ones": b"~" * 40, "one": b"A", "min": b"ANTSTATUS=OK\r\n", "max": b"\r\n", "count": b" x \t\n", "small": b"\x00pad\x00\x00",
                       "fpedge": b"line1\r\nline2\r"}.get(pattern)
                if txt is None:
                    txt = bytes(rng.randrange(0x20, 0x7F) for _ in range(rng.randrange(1, 60)))
                tail = txt
                continue
            if e["off"] != len(buf):
                if e["off"] < len(buf):
                    continue  # raw X entry and its flags overlap (pbf=0 emits both): keep first
                raise MachineryError("layout hole in %s at %s" % (lay["name"], e["n"]))
            buf += _field_bytes(e, pattern, rng, k)
        elif e["k"] == "x":
            if e["off"] == len(buf):  # first flag of a bitfield (pbf=1 view): create the bytes
                n = e["size"]
                buf += _field_bytes({"size": n, "t": "X"}, pattern, rng, k)
        elif e["k"] == "cfg":
            tail = cfg_items(rng, cfgdb, pattern)
    buf += tail
    # group counts
    for fx in lay["fixes"]:
        done = False
        for e in entries:
            if e["n"] == fx["n"] and e["k"] == "x":
                set_bits(buf, e["off"], e["bo"], e["w"], fx["v"])
                done = True
                break
        if not done:
            for e in entries:
                if e["n"] == fx["n"] and e["k"] == "f" and e["size"] > 0 and e["t"][:1] in "UEIL":
                    buf[e["off"]:e["off"] + e["size"]] = int(fx["v"]).to_bytes(e["size"], "little")
                    done = True
                    break
    for bf in lay["bfix"]:
        if bf["o"] < len(buf):
            buf[bf["o"]] = bf["v"]
    return bytes(buf)


def cfg_items(rng, cfgdb, pattern):
    if not cfgdb or pattern == "zero":
        return b""
    out = b""
    n = {"one": 1, "ones": 64, "small": 2}.get(pattern, rng.randrange(1, 12))
    used = set()
    for _ in range(n):
        if rng.random() < 0.8:
            e = rng.choice(cfgdb)
            key = bytes(e["key"])
            size = int(e["t"][1:4])
        else:
            code = rng.randrange(1, 6)
            if rng.random() < 0.5:
                # near miss of a documented key: same group and item, other size code
                d = int.from_bytes(bytes(rng.choice(cfgdb)["key"]), "little")
                kid = (d & 0x0FFFFFFF) | (code << 28)
                if any(bytes(x["key"]) == kid.to_bytes(4, "little") for x in cfgdb):
                    kid = (code << 28) | (rng.randrange(1, 0xFF) << 16) | rng.randrange(0xF000, 0xFFFF)
            else:
                kid = (code << 28) | (rng.randrange(1, 0xFF) << 16) | rng.randrange(0xF000, 0xFFFF)
            key = kid.to_bytes(4, "little")
            size = {1: 1, 2: 1, 3: 2, 4: 4, 5: 8}[code]
        if key in used:
            continue
        used.add(key)
        if rng.random() < 0.15 and (key[3] >> 4) & 7 in (1, 2, 3, 4, 5):
            # the same group/item with one of the reserved bits of a key ID set (12..15, 24..27, 31): another, undocumented key
            kid2 = int.from_bytes(key, "little") ^ (1 << rng.choice((12, 13, 14, 15, 24, 25, 26, 27, 31)))
            key2 = kid2.to_bytes(4, "little")
            if key2 not in used and not any(bytes(x["key"]) == key2 for x in cfgdb):
                used.add(key2)
                out += key2 + rng.randbytes(size)
        val = rng.randbytes(size)
        if cfgdb and key[3] & 0x70 in (0x40, 0x50):
            # R4/R8-typed keys: keep the value a finite float (NaN payloads cannot be projected without their offset)
            import struct as _s
            typ = next((x["t"] for x in cfgdb if bytes(x["key"]) == key), "")
            if typ[:1] == "R":
                val = _s.pack("<f" if size == 4 else "<d", (rng.random() - 0.5) * 10 ** rng.randrange(-3, 6))
        out += key + val
    return out


# ---------------------------------------------------------------------------------- projection
def _int_ok(v):
    return type(v) is int


def _num_ok(v):
    return type(v) in (int, float)


def _scaled_match(v, raw, scale):
    """does the python number v denote raw*scale at the library's documented resolution (12 dp)?"""
    if not _num_ok(v) or (isinstance(v, float) and not math.isfinite(v)):
        return False
    exact = raw * Fraction(scale)
    tol = HALF_E12 + abs(exact) * Fraction(1, 2 ** 50)
    return abs(Fraction(v) - exact) <= tol


def _signed(t):
    return t[:1] == "I"


def canon_nan(n):
    return struct.pack("<f" if n == 4 else "<d", float("nan"))


def canon_nans(lay, P):
    """P with every floating point field that holds a NaN overwritten by the canonical NaN pattern (see project_field)"""
    buf = bytearray(P)
    for e in lay["lay"]:
        if e["k"] == "f" and e["t"][:1] == "R" and e["size"] in (4, 8) and 0 <= e["off"] and e["off"] + e["size"] <= len(buf):
            c = struct.unpack("<f" if e["size"] == 4 else "<d", bytes(buf[e["off"]:e["off"] + e["size"]]))[0]
            if math.isnan(c):
                buf[e["off"]:e["off"] + e["size"]] = canon_nan(e["size"])
    return bytes(buf)


def project_field(e, v, P, hp=None, canon=False):
    """[k, bytes, hpbytes] for attribute value v of layout entry e (candidate bytes from P)"""
    t = e["t"]
    kind = t[:1]
    n = e["size"]
    cand = bytes(P[e["off"]:e["off"] + n]) if n >= 0 else bytes(P[e["off"]:])
    bad = ["?", [], []]
    if t == "CH":
        if not isinstance(v, str):
            return bad
        try:
            return ["f", list(v.encode("utf-8")), []]
        except UnicodeError:
            return bad
    if kind in "UEIL":
        if e["sc"] == 1 or hp is not None:
            scale = float(e["scale"]) if e["sc"] == 1 else 1
            raw = int.from_bytes(cand, "little", signed=_signed(t))
            if hp is not None:
                hcand = bytes(P[hp["off"]:hp["off"] + hp["size"]])
                hraw = int.from_bytes(hcand, "little", signed=_signed(hp["t"]))
                hscale = float(hp["scale"]) if hp["sc"] == 1 else 1
                exact = raw * Fraction(scale) + hraw * Fraction(hscale)
                tol = HALF_E12 * 3 + abs(exact) * Fraction(1, 2 ** 49)
                if _num_ok(v) and (not isinstance(v, float) or math.isfinite(v)) and abs(Fraction(v) - exact) <= tol:
                    return ["f", list(cand), list(hcand)]
                return ["f", [256], []]  # does not denote the two slices: can never match
            if _scaled_match(v, raw, scale):
                return ["f", list(cand), []]
            if not _num_ok(v) or (isinstance(v, float) and not math.isfinite(v)):
                return bad
            try:
                r2 = round(Fraction(v) / Fraction(scale))
                return ["f", list(int(r2).to_bytes(n, "little", signed=_signed(t))), []]
            except (OverflowError, ZeroDivisionError):
                return bad
        if not _int_ok(v):
            return bad
        try:
            return ["f", list(v.to_bytes(n, "little", signed=_signed(t))), []]
        except OverflowError:
            return bad
    if kind in "XC":
        if isinstance(v, (bytes, bytearray)):
            return ["f", list(v), []]
        return bad
    if kind == "R":
        if not _num_ok(v):
            return bad
        if isinstance(v, float) and math.isnan(v):
            # "not a number" is ONE value: which of its bit patterns stands in the payload is not the library's doing (converting a
            # signalling NaN between 32 and 64 bits quiets it in hardware) - every NaN pattern is projected to the canonical one
            # (build direction only - canon: when parsing, the attribute NaN stands for whatever NaN pattern the payload holds)
            c = struct.unpack("<f" if n == 4 else "<d", cand)[0] if len(cand) == n else 0.0
            return ["f", list(canon_nan(n) if canon else cand) if math.isnan(c) else [256], []]
        try:
            if e["sc"] == 1:
                c = struct.unpack("<f" if n == 4 else "<d", cand)[0]
                if math.isfinite(c) and abs(Fraction(v) - Fraction(c) * Fraction(float(e["scale"]))) <= HALF_E12 + abs(Fraction(v)) * Fraction(1, 2 ** 48):
                    return ["f", list(cand), []]
                return ["f", [256], []]
            return ["f", list(struct.pack("<f" if n == 4 else "<d", v)), []]
        except (OverflowError, struct.error):
            return bad
    if kind == "A":
        if isinstance(v, list) and all(_int_ok(x) and 0 <= x < 256 for x in v):
            return ["f", list(v), []]
        return bad
    return bad


def project_flag(e, v):
    if not _int_ok(v) or v < 0 or v >= (1 << e["w"]):
        return ["?", [], []]
    return ["x", [(v >> b) & 1 for b in range(e["w"])], []]


def index_layout(lay):
    by = {}
    hp = {}
    for e in lay["lay"]:
        if e["k"] == "cfg":
            continue
        if e["n"].startswith("_HP"):
            hp[e["n"][3:]] = e
        if e["x"] == 1 and e["n"] not in by:
            by[e["n"]] = e
    return by, hp


def project_attrs(msg, lay, P, cfgtypes=None):
    """ordered [[name, k, bytes|bits, hpbytes], ...] for the public attributes of msg"""
    try:
        d = vars(msg)
    except TypeError:
        return [["?no-dict", "?", [], []]]
    by, hp = index_layout(lay)
    if cfgtypes is None:
        cfgtypes = CFGTYPES
    out = []
    cfgpos = None
    for e in lay["lay"]:
        if e["k"] == "cfg":
            cfgpos = e["off"]
    for name, v in d.items():
        if name.startswith("_"):
            continue
        e = by.get(name)
        if e is None:
            if cfgpos is not None and name.startswith("CFG_") and cfgtypes is not None:
                # configuration item: type from the exported database or from the key id in the name
                t = cfgtypes.get(name)
                if t is None and name.startswith("CFG_0x"):
                    try:
                        code = int(name[6:7], 16) if len(name[6:]) == 8 else -1
                    except ValueError:
                        code = -1
                    sz = {1: 1, 2: 1, 3: 2, 4: 4, 5: 8}.get(code)
                    t = "X%03d" % sz if sz else None
                if t is None:
                    out.append([name, "?", [], []])
                    continue
                pe = {"t": t, "size": int(t[1:4]), "sc": 0, "scale": "", "off": 0}
                if t[:1] == "R":
                    # floats: project by struct (no candidate needed except NaN)
                    pr = project_field(pe, v, struct.pack("<f" if pe["size"] == 4 else "<d", v) if _num_ok(v) and not (isinstance(v, float) and math.isnan(v)) else b"")
                else:
                    pr = project_field(pe, v, b"")
                out.append([name] + pr)
            else:
                out.append([name, "?", [], []])
            continue
        if e["k"] == "x":
            out.append([name] + project_flag(e, v))
        else:
            out.append([name] + project_field(e, v, P, hp.get(name)))
    return out


# ----------------------------------------------------------------------------------- observers
def parse_payload(m, cls, mid, pbf, P, validate=1):
    from pyubx2 import UBXReader

    f = frame(cls, mid, P)
    try:
        with envrot.hostile(envrot.key(bytes(P), cls, mid)):
            if (len(P) + mid) % 3 == 1:
                # a caller that owns an earlier result of the same call and has changed its mutable values (array attributes) in place
                try:
                    envrot.taint(UBXReader.parse(f, msgmode=m, validate=validate, parsebitfield=pbf))
                except Exception:  # noqa: BLE001 - the observed call below reports it
                    pass
            route = (len(P) + 3 * cls + mid) % 7
            if route == 5 and P:
                # the documented other way of parsing a payload: the constructor itself, parsebitfield given positionally
                from pyubx2 import UBXMessage

                msg = UBXMessage(bytes([cls]), bytes([mid]), envrot.mode_arg(m, 5), bool(pbf), payload=bytes(P))
            elif route == 6:
                # ... and the stream route: a reader opened with these options over a stream holding just this frame
                import io

                raw, msg = UBXReader(io.BytesIO(f), msgmode=m, validate=validate, parsebitfield=pbf, quitonerror=2).read()
                if msg is None:
                    return None, "none", f
            elif cls == 6 and mid in (0x8A, 0x8C) and m == 1 and route in (1, 3):
                # CFG-VALSET / CFG-VALDEL are input messages no poll can be mistaken for: automatic mode resolution gives the same
                msg = UBXReader.parse(f, msgmode=3, validate=validate, parsebitfield=pbf)
            else:
                msg = UBXReader.parse(f, msgmode=m, validate=validate, parsebitfield=pbf)
            msg = envrot.twin(msg, envrot.key(bytes(P), cls, mid, m))
    except Exception as ex:  # noqa: BLE001
        return None, classify_exc(ex), f
    return msg, "msg", f


def obs_c02(case):
    """case: {lay: layout, P: hex}"""
    lay = case["lay"]
    P = bytes.fromhex(case["P"])
    m, cls, mid, pbf = lay["m"], lay["cls"], lay["id"], 1 if lay["pbf"] else 0
    history.run(case.get("hist"))
    # the frames are well-formed, so checksum validation on / off must not matter: both are exercised
    msg, out, _ = parse_payload(m, cls, mid, pbf, P, validate=0 if (len(P) + cls) % 3 == 0 else 1)
    ev = {"prop": case.get("prop", "C02"), "m": m, "cls": cls, "id": mid, "pbf": pbf, "P": list(P), "intended": lay["name"],
          "out": out, "identity": "", "attrs": [], "str": "", "strok": 0, "ftok": []}
    if msg is not None:
        try:
            ev["identity"] = msg.identity
        except Exception as ex:  # noqa: BLE001
            ev["identity"] = "err:" + type(ex).__name__
        ev["attrs"] = project_attrs(msg, lay, P, case.get("cfgtypes"))
        # spec growth (UbxStr): the printable form, with Python's rendering of float values supplied as opaque tokens
        try:
            s = str(msg)
            ok = s.isascii() and all(32 <= ord(c) < 127 for c in s) and len(s) < 20000
            ev["str"], ev["strok"] = (s if ok else ""), (1 if ok else 0)
            ev["ftok"] = [[k, str(v)] for k, v in vars(msg).items() if not k.startswith("_") and isinstance(v, float)] if ok else []
        except Exception as ex:  # noqa: BLE001 - judged by C08, not here
            ev["str"], ev["strok"], ev["ftok"] = "err:" + type(ex).__name__, 0, []
    return ev


def obs_c02_mt(case):
    """the same parse as obs_c02, performed by several threads at once as the first use of the library in a fresh interpreter"""
    import os
    import subprocess
    import sys
    import tempfile

    from ..common import VERIF

    d = tempfile.mkdtemp(prefix="c02mt-", dir=os.path.join(VERIF, "build"))
    cin, cout = os.path.join(d, "case.json"), os.path.join(d, "out.json")
    try:
        c = dict(case)
        c["cfgtypes"] = CFGTYPES
        with open(cin, "w") as f:
            json.dump(c, f)
        env = dict(os.environ, PYTHONPATH=VERIF, PYTHONDONTWRITEBYTECODE="1")
        p = subprocess.run([sys.executable, "-m", "harness.drivers.walk_child", cin, cout], cwd=VERIF, env=env, capture_output=True, timeout=300)
        if not os.path.exists(cout):
            raise MachineryError("C02 child failed: rc=%s %s" % (p.returncode, p.stderr[-600:]))
        with open(cout) as f:
            ev = json.load(f)
        if ev is None:
            raise MachineryError("C02 child: thread produced no event")
        return ev
    finally:
        for x in (cin, cout):
            if os.path.exists(x):
                os.remove(x)
        os.rmdir(d)


from .race import obs_race  # noqa: E402

from .optchild import obs_opt_single  # noqa: E402

OBSERVERS = {"c02": obs_c02, "c02mt": obs_c02_mt, "race": obs_race, "opt": obs_opt_single}
