"""
Child process for the "concurrent first use" pass of C02: in a FRESH interpreter several threads parse the same frame at the same
moment, as the very first use of the library (lazily built lookup tables, first-use initialisation); the projected event of ONE of
the threads is returned and judged by T_Walk like any other parse.

usage: python -m harness.drivers.walk_child <case.json> <out.json>
"""

import json
import os
import sys
import threading


def main():
    repo = os.environ.get("VERIF_REPO", "/repo")
    sys.path.insert(0, os.path.join(repo, "src"))
    sys.dont_write_bytecode = True
    with open(sys.argv[1]) as f:
        case = json.load(f)
    from harness.drivers import walk

    import pyubx2  # noqa: F401 - importing is not using: the threads below make the first CALLS

    walk.CFGTYPES = case.get("cfgtypes")
    n = case.get("threads", 6)
    want = case.get("thread_index", 1)
    res = [None] * n
    bar = threading.Barrier(n)
    old = sys.getswitchinterval()
    sys.setswitchinterval(1e-6)

    def body(i):
        bar.wait()
        res[i] = walk.obs_c02(case)

    ths = [threading.Thread(target=body, args=(i,)) for i in range(n)]
    for t in ths:
        t.start()
    for t in ths:
        t.join(60)
    sys.setswitchinterval(old)
    with open(sys.argv[2], "w") as f:
        json.dump(res[want % n], f)


if __name__ == "__main__":
    main()
