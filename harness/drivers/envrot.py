"""
Hostile process environment, rotated over the observed calls.  The properties quantify over inputs, not over how the host application
has configured its interpreter, so an observed call must give the same result when

  * warnings issued from inside the library are promoted to errors (python -W error, pytest -W error): a warning raised in the middle
    of a parse is then an exception - and a foreign one;
  * the thread's decimal context is not the default one (prec=6, or decimal.BasicContext): arithmetic that silently follows the
    ambient context truncates values.

Only warnings attributed to pyubx2 modules (or to the harness line that called the library) are promoted; third-party parsers keep
their own behaviour.  The decimal context is changed only around calls that involve pyubx2 alone.
"""

import contextlib
import decimal
import warnings


@contextlib.contextmanager
def hostile(h, decimals=True):
    old = decimal.getcontext().copy()
    try:
        if decimals and h % 3 == 1:
            decimal.setcontext(decimal.Context(prec=6))
        elif decimals and h % 3 == 2:
            decimal.setcontext(decimal.BasicContext.copy())
        with warnings.catch_warnings():
            if h % 2:
                warnings.filterwarnings("error", module=r"pyubx2(\.|$)")
                warnings.filterwarnings("error", module=r"harness(\.|$)")
            yield
    finally:
        decimal.setcontext(old)


class FrameBytes(bytes):
    """a subclass of the documented argument type (what a buffer class of an application may be)"""


import enum  # noqa: E402


class Mode(enum.IntEnum):
    GET = 0
    SET = 1
    POLL = 2
    SETPOLL = 3


def mode_arg(mode, h):
    """the documented int, or a member of an IntEnum with that value (applications name their modes)"""
    if h % 7 != 5 or mode not in (0, 1, 2, 3):
        return mode
    return Mode(mode)


class CIStr(str):
    """a str subclass with a wider (case-insensitive) equality and a consistent hash: legal, and names given this way are matched
    wherever the library compares with =="""

    def __eq__(self, other):
        return isinstance(other, str) and str.lower(self) == str.lower(other)

    def __ne__(self, other):
        return not self.__eq__(other)

    def __hash__(self):
        return hash(str.lower(self))


def twin(m, h):
    """the message as another process / another part of the application gets it: through pickle (multiprocessing), copy.deepcopy or
    copy.copy - a UBXMessage like any other; three observations in eight look at a twin instead of the original"""
    r = h % 8
    if m is None or r not in (1, 2, 3):
        return m
    import copy
    import pickle

    if r == 1:
        return pickle.loads(pickle.dumps(m, protocol=(h // 8) % 6))
    if r == 2:
        return copy.deepcopy(m)
    return copy.copy(m)


def taint(m):
    """what a caller may do with a result it owns: change, in place, every mutable PUBLIC value it was handed (lists of array
    attributes).  Another parse of the same bytes must not be affected"""
    try:
        items = list(vars(m).items())
    except TypeError:
        return
    for k, v in items:
        if k.startswith("_"):
            continue
        if isinstance(v, list):
            v.reverse()
            v[:] = [((x ^ 0xAA) if 0 <= x <= 255 else -7 - x) if isinstance(x, int) and not isinstance(x, bool) else None for x in v]
        elif isinstance(v, bytearray):
            v[:] = b"\xee" * (len(v) + 1)
        elif isinstance(v, dict):
            v.clear()


def key(*parts):
    """small deterministic number from the case (so that --replay reproduces the environment)"""
    n = 0
    for p in parts:
        if isinstance(p, (bytes, bytearray)):
            n = n * 31 + len(p) + (p[0] if p else 0) + (p[-1] if p else 0)
        elif isinstance(p, int):
            n = n * 31 + p
        elif isinstance(p, str):
            n = n * 31 + len(p)
    return n
