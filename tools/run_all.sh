#!/bin/sh
# usage: tools/run_all.sh <quick|thorough> [IDs...]   - runs the checks one after another, one summary line each
cd "$(dirname "$0")/.." || exit 2
TIER=$1; shift
IDS=${*:-C01 C02 C03 C04 C05 C06 C07 C08 C09 C10 C11 C12 C13 C14 C15 C16 C17 C18}
for p in $IDS; do
  s=$(date +%s)
  ./check $p $TIER > build_$p.log 2>&1
  rc=$?
  echo "$p $TIER exit=$rc wall=$(( $(date +%s) - s ))s  $(grep -E 'PASS|FAIL|MACHINERY' build_$p.log | tail -1 | cut -c1-160)"
  grep -E '^VIOLATION|^MACHINERY' build_$p.log | head -5
done
