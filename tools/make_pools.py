#!/usr/bin/env python3
"""One-off: cut the repository's recorded logs into frames (own, simple framer) and store them as
input pools for the reader drivers.  Verdicts are NOT stored: they are recomputed at run time."""
import glob, json, os
out = {"ubx": set(), "nmea": set(), "rtcm": set()}
for p in sorted(glob.glob("/repo/tests/*.log")):
    d = open(p, "rb").read()
    i = 0
    while i < len(d) - 1:
        b = d[i]
        if b == 0xB5 and d[i + 1] == 0x62 and i + 6 <= len(d):
            n = d[i + 4] | (d[i + 5] << 8)
            f = d[i:i + 8 + n]
            if len(f) == 8 + n:
                out["ubx"].add(f.hex()); i += len(f); continue
        if b == 0x24:
            j = d.find(b"\n", i)
            if j > 0 and j - i < 120:
                out["nmea"].add(d[i:j + 1].hex()); i = j + 1; continue
        if b == 0xD3 and d[i + 1] < 4 and i + 3 <= len(d):
            n = d[i + 2] | (d[i + 1] << 8)
            f = d[i:i + 6 + n]
            if len(f) == 6 + n:
                out["rtcm"].add(f.hex()); i += len(f); continue
        i += 1
res = {k: sorted(v) for k, v in out.items()}
json.dump(res, open(os.path.join(os.path.dirname(__file__), "..", "harness", "data", "pools.json"), "w"))
print({k: len(v) for k, v in res.items()})
