#!/usr/bin/env python3
"""Regenerates /verif/MANIFEST.json from the table below (kept in one place so it stays valid)."""
import json, os
V = os.path.dirname(os.path.dirname(os.path.abspath(__file__)))
props = [json.loads(l)["id"] for l in open(os.path.join(V, "properties.jsonl"))]
BASE = "cd /repo && /venv/bin/python -m pytest -ra -q -p no:cacheprovider --timeout=900 --continue-on-collection-errors"
TRUST = ("TLC 1.8 evaluates the TLA+ modules in /verif/spec faithfully; CPython int/struct codecs; the harness observes only "
         "public API results; bounds as stated in the evidence file")
CLAIMED = {
 "C01": ("TLC checks the frame round-trip lemma exhaustively on a small alphabet; every recorded UBXReader.parse call on generated "
         "well-formed frames (all message IDs, random and (thorough) all 65,536 class/ID pairs, lengths 0..65,535, 4 msgmodes x 2 "
         "bitfield settings) is validated by TLC against spec/UbxFrame.tla (serialize, msg_cls, msg_id, length, payload, eval(repr)).",
         "3.6, 4/C01", "TLA+ frame spec + TLC trace validation of recorded parse/serialize calls"),
 "C05": ("TLC explores the fault machine (substitution/insertion/deletion/truncation/burst, depth<=2) over a frame library and proves "
         "Accept => WellFormed at design level; every reachable byte string is replayed into UBXReader.parse(VALCKSUM) and every "
         "corruption of 15 realistic frames plus random strings is validated by TLC (accepted => well-formed; malformed => UBXParseError; "
         "VALNONE checksum corruption => same attributes).",
         "3.6, 4/C05", "TLC fault-sequence model checking + replay of every reachable string into the code + TLC trace validation"),
 "C06": ("TLC proves the clean-stream theorem on the reader machine (spec/UbxReader.tla) for all sequences of <=3/4 tokens with real "
         "Fletcher/CRC-24Q framing; the real UBXReader is then run on every sequence of a 13-frame concrete library and on seeded long "
         "interleavings of recorded/synthesised UBX, NMEA and RTCM3 frames with noise; TLC validates each run: delivered (raw, parsed) "
         "= the frames the protocol parsers accept (direct calls), in order, and event-by-event conformance with the machine.",
         "3.8, 4/C06", "TLA+ reader state machine + TLC trace validation of recorded reader runs against recipe-derived expectation"),
 "C07": ("TLC explores the reader machine on EVERY stream over an 8-byte alphabet up to length 5/6 with nondeterministic parser verdicts "
         "(NothingLeft, Slices, AppendOnly, termination) and shows the pinned zero-read defect as a counterexample; the real reader is run on "
         "the same exhaustive stream set and on random garbage, every read()/readline()/item/handler event logged by a recording stream, and "
         "TLC validates each run with the C07 monitor (in-order disjoint slices with preamble, nothing unread at end) and against the machine.",
         "3.8, 4/C07", "TLC exhaustive model checking of the reader machine + TLC trace validation (monitor + event-by-event conformance)"),
 "C09": ("Self-composition lemma Cut checked by TLC on all token streams x all cut positions; the real reader is run on S and on S[:k] for "
         "every k for exhaustive small, clean and garbage streams; TLC judges prefix, normal end, no item beyond the cut, and delivery of "
         "every accepted frame lying before the cut.", "3.8, 4/C09", "TLC self-composition lemma + TLC trace validation over every cut position"),
 "C11": ("Lemmas Mask/Parsing checked by TLC on all token streams x 8 masks, InvMask on the byte-alphabet machine; the real reader is run "
         "under all 8 masks x parsing flag on exhaustive small, clean and garbage streams and TLC checks items_F = filter(items_7).",
         "3.8, 4/C11", "TLC self-composition lemma + TLC trace validation over all masks"),
 "C12": ("Lemma Policy checked by TLC on all token streams; the real reader is run under IGNORE / LOG with handler / RAISE / LOG without "
         "handler; TLC checks equal items, handler calls = rejected frames (family, order) on recipe streams, RAISE delivers the items "
         "before the first rejection and raises the same exception (type and args).",
         "3.8, 4/C12", "TLC self-composition lemma + TLC trace validation over error policies"),
}
checks = []
for p in props:
    if p in CLAIMED:
        text, ref, tech = CLAIMED[p]
        checks.append({
            "property_id": p, "quick_cmd": "./check %s quick" % p, "thorough_cmd": "./check %s thorough" % p,
            "evidence_file": "/verif/evidence/%s.json" % p, "replay_cmd_template": "./check %s --replay {path}" % p,
            "engine": "tlc", "level_claimed": {"category": "model_checking", "text": text, "design_ref": ref},
            "level_note": TRUST, "technique": tech})
m = {
 "version": 1, "setup_cmd": "./check --setup",
 "hooks": {"guard": "PYUBX2_VERIF", "enable": "none needed: all observation is at the public API (no source hooks)",
           "baseline_off_cmd": BASE, "source_commits": [], "add_only": True},
 "engines": [{"name": "tlc", "path": "/verif/check", "serves_properties": sorted(CLAIMED),
              "kind_free_text": "explicit TLA+ specification (/verif/spec) checked with TLC; conformance by replaying TLC-generated behaviours into pyubx2 and validating recorded pyubx2 traces with TLC"}],
 "checks": checks,
 "not_applicable": [{"property_id": p, "reason": "check under construction (DESIGN.md section 9 build order); will be claimed when built"} for p in props if p not in CLAIMED],
 "notes": "fix: commits in /repo are listed in /verif/known_findings.json",
}
json.dump(m, open(os.path.join(V, "MANIFEST.json"), "w"), indent=1)
print("claimed:", sorted(CLAIMED))
