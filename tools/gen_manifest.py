#!/usr/bin/env python3
"""Regenerates /verif/MANIFEST.json from the table below (kept in one place so it stays valid)."""
import json, os
V = os.path.dirname(os.path.dirname(os.path.abspath(__file__)))
props = [json.loads(l)["id"] for l in open(os.path.join(V, "properties.jsonl"))]
BASE = "cd /repo && /venv/bin/python -m pytest -ra -q -p no:cacheprovider --timeout=900 --continue-on-collection-errors"
TRUST = ("TLC 1.8 evaluates the TLA+ modules in /verif/spec faithfully; CPython int/struct codecs; the harness observes only "
         "public API results; bounds as stated in the evidence file")
CLAIMED = {
 "C01": ("TLC checks the frame round-trip lemma exhaustively on a small alphabet; every recorded UBXReader.parse call on generated "
         "well-formed frames (all message IDs, random and (thorough) all 65,536 class/ID pairs, lengths 0..65,535, 4 msgmodes x 2 "
         "bitfield settings) is validated by TLC against spec/UbxFrame.tla (serialize, msg_cls, msg_id, length, payload, eval(repr)).",
         "3.6, 4/C01", "TLA+ frame spec + TLC trace validation of recorded parse/serialize calls"),
 "C05": ("TLC explores the fault machine (substitution/insertion/deletion/truncation/burst, depth<=2) over a frame library and proves "
         "Accept => WellFormed at design level; every reachable byte string is replayed into UBXReader.parse(VALCKSUM) and every "
         "corruption of 15 realistic frames plus random strings is validated by TLC (accepted => well-formed; malformed => UBXParseError; "
         "VALNONE checksum corruption => same attributes).",
         "3.6, 4/C05", "TLC fault-sequence model checking + replay of every reachable string into the code + TLC trace validation"),
 "C06": ("TLC proves the clean-stream theorem on the reader machine (spec/UbxReader.tla) for all sequences of <=3/4 tokens with real "
         "Fletcher/CRC-24Q framing; the real UBXReader is then run on every sequence of a 13-frame concrete library and on seeded long "
         "interleavings of recorded/synthesised UBX, NMEA and RTCM3 frames with noise; TLC validates each run: delivered (raw, parsed) "
         "= the frames the protocol parsers accept (direct calls), in order, and event-by-event conformance with the machine.",
         "3.8, 4/C06", "TLA+ reader state machine + TLC trace validation of recorded reader runs against recipe-derived expectation"),
 "C07": ("TLC explores the reader machine on EVERY stream over an 8-byte alphabet up to length 5/6 with nondeterministic parser verdicts "
         "(NothingLeft, Slices, AppendOnly, termination) and shows the pinned zero-read defect as a counterexample; the real reader is run on "
         "the same exhaustive stream set and on random garbage, every read()/readline()/item/handler event logged by a recording stream, and "
         "TLC validates each run with the C07 monitor (in-order disjoint slices with preamble, nothing unread at end) and against the machine.",
         "3.8, 4/C07", "TLC exhaustive model checking of the reader machine + TLC trace validation (monitor + event-by-event conformance)"),
 "C09": ("Self-composition lemma Cut checked by TLC on all token streams x all cut positions; the real reader is run on S and on S[:k] for "
         "every k for exhaustive small, clean and garbage streams; TLC judges prefix, normal end, no item beyond the cut, and delivery of "
         "every accepted frame lying before the cut.", "3.8, 4/C09", "TLC self-composition lemma + TLC trace validation over every cut position"),
 "C11": ("Lemmas Mask/Parsing checked by TLC on all token streams x 8 masks, InvMask on the byte-alphabet machine; the real reader is run "
         "under all 8 masks x parsing flag on exhaustive small, clean and garbage streams and TLC checks items_F = filter(items_7).",
         "3.8, 4/C11", "TLC self-composition lemma + TLC trace validation over all masks"),
 "C12": ("Lemma Policy checked by TLC on all token streams; the real reader is run under IGNORE / LOG with handler / RAISE / LOG without "
         "handler; TLC checks equal items, handler calls = rejected frames (family, order) on recipe streams, RAISE delivers the items "
         "before the first rejection and raises the same exception (type and args).",
         "3.8, 4/C12", "TLC self-composition lemma + TLC trace validation over error policies"),
 "C02": ("TLC checks on every payload definition of the working tree x repeat count x bitfield view that the generating and the parsing "
         "formulation of the walk (spec/UbxWalk.tla) agree and emits every layout; the harness fills each with boundary/random values, "
         "parses with the real code and TLC recomputes identity, attribute names, order and the bytes/bits every attribute denotes "
         "from the payload alone and compares (numeric decoding judged by an exact-rational projection).",
         "3.5, 4/C02", "TLA+ payload-walk spec; TLC-generated layouts replayed into the parser; TLC trace validation of projected attributes"),
 "C08": ("For every definition (TLC layouts) frames of every payload length 0..nominal+3 and arbitrary strings are parsed and inspected, "
         "streams are read under all configurations with a call-bounded recording stream and a SIGALRM watchdog; TLC judges each event "
         "(message or UBX* error; inspections do not raise; reader ends, raises only under ERR_RAISE and only protocol errors) and proves "
         "termination of the reader machine on all streams up to length 5.",
         "3.8, 4/C08", "TLC trace validation of parse/inspect/reader events + TLC liveness (termination) of the reader machine"),
 "C16": ("Exhaustive: TLC evaluates the documented grammar (spec/UbxGrammar.tla) on every entry of the GET/SET/POLL payload tables, the "
         "message-ID table, the variant table and the configuration database exported from the working tree; the nominal instance of "
         "every reachable (message, mode) is built and parsed by the real code and judged by TLC.",
         "3.4, 4/C16", "TLC exhaustive evaluation of grammar predicates over the exported tables + nominal-instance replay"),
 "C17": ("TLC evaluates the designed SETPOLL heuristic on the conforming frame of every SET/POLL table entry (design-level ambiguities "
         "listed); every SET/POLL layout is generated by the real constructor in its true mode and parsed with the true mode and with "
         "SETPOLL; TLC judges mode, identity and attributes and notes any drift of the implementation from the designed heuristic.",
         "3.6, 4/C17", "TLC design-level evaluation over all SET/POLL definitions + TLC trace validation of SETPOLL parses"),
 "C03": ("TLC proves the design lemma Build(attributes of Parse(P)) = P on every definition x count x view (spec/UbxBuild.tla); every "
         "layout is filled, parsed by the real code, the reported values (all, and random subsets) are fed back into the real constructor "
         "and TLC compares the built payload with UbxBuild!Build of the projected keyword values; raw sweeps of every (type, scale) pair.",
         "3.5, 4/C03", "TLA+ build-walk spec + TLC trace validation of real constructor calls; design lemma by TLC over all definitions"),
 "C04": ("Every construction route x addressing form x definition (TLC layouts) and the config helpers are run through the real "
         "constructor; TLC judges each serialisation with its own Fletcher-8 / WellFormed, the embedded payload and length, agreement of "
         "the addressing forms and acceptance by UBXReader.parse in the same mode.",
         "3.6, 4/C04", "TLC trace validation of construct/serialize/re-parse events against the frame spec"),
 "C15": ("For every definition one attribute of each kind receives ill-fitting values of every Python scalar/container type; TLC judges "
         "each constructor call: refused with UBXMessageError/UBXTypeError, or encoded exactly as UbxBuild!Build prescribes for the value it "
         "denotes with no other byte altered and the payload length the definition implies.",
         "3.5, 4/C15", "TLA+ build-walk spec + TLC trace validation of constructor calls with ill-fitting values"),
 "C10": ("TLC explores the SocketWrapper machine (one action per recv and per call boundary) over every segmentation of a byte sequence x "
         "bufsize x call scripts (conservation; results exactly as the byte sequence prescribes) and proves the reader delivers the same "
         "items over an all-or-nothing source as over a file; scripted sockets (all segmentations of short sequences, random ones of long "
         "streams, close/timeout) and real socketpair delivery from a sender thread are logged at the socket object and validated by TLC.",
         "3.9, 4/C10", "TLC model checking of the socket-wrapper machine over all segmentations + TLC trace validation of scripted and real socket runs"),
 "C13": ("TLC checks every interleaving of 3 workers (world untouched, results functional) and generates schedules by simulation; traces "
         "recorded in fresh interpreters (setattr/delattr on messages of every definition; probes before/after seeded histories with "
         "fd-level stdout/stderr capture and table digests; TLC schedules replayed by a source-line-level scheduler; free-running threads) "
         "are validated by TLC against spec/UbxObject.tla.",
         "3.10, 4/C13", "TLC interleaving model + TLC-generated schedules replayed deterministically + TLC trace validation"),
 "C14": ("Exhaustive TLC evaluation of the configuration-database laws over all keys of the tree; every key x {name, ID} x boundary values "
         "through config_set/config_del/config_poll, list lengths 0..64 and beyond, header sweeps and all lookups validated by TLC against "
         "spec/UbxConfigDb.tla; CFG-VALSET/VALGET payloads with known and unknown keys parsed and compared with UbxWalk!CfgItems.",
         "3.7, 4/C14", "TLC exhaustive table evaluation + TLC trace validation of config helper / lookup / parse calls"),
 "C18": ("Every recorded helper call is validated by TLC against spec/UbxHelpers.tla: integer codecs on limb sequences (every value of "
         "every 1- and 2-byte type plus out-of-range rings; boundary/random for wider types), opaque round trips, nomval, Fletcher-8, "
         "time-of-week conversions, get_bits, protocol() on all 65,536 prefixes, att2idx/att2name, val2sphp.",
         "3.11, 4/C18", "TLA+ codec/helper laws + TLC trace validation of exhaustive and sampled helper calls"),
}
EXTRA = {
 "C01": " Also: frames within frames, and every frame parsed right after hostile histories in the same interpreter; digest-colliding frame pairs (crc32 / adler32) parsed back to back; a pre-emption sweep over every source line of parse / serialize / repr against a second thread; argument forms rotate (positional options, IntEnum modes, bytes subclass / bytearray frames) and three observations in eight look at a pickle / deepcopy / copy twin; beyond the property the text of repr(msg) and the mode gates of the entry points are compared with the specification (notes only).",
 "C02": " Also: hostile histories, variant length collisions (counts computed from the TLC layouts), checksum validation on/off, a caller that changed an earlier result's array attributes in place, the same class / ID tried in the other modes first, static / constructor / stream parse routes, twins; beyond the property, str(msg) is compared with spec/UbxStr.tla (notes only).",
 "C03": " Also: the same round trips right after hostile histories (refusals / failing parses inside groups) and with shuffled keyword order; addressing by bytes, integers and every alias name; sibling-mode histories; a sample re-run under -O / -OO with another hash seed and time zone.",
 "C04": " Also: every class/ID of the message-ID table payload-less in sequence by every addressing, messages obtained by lenient parses of damaged frames, payloads around 64 KiB, payload= as bytes / bytearray / memoryview, text attributes given as non-UTF-8 bytes, twins of the built message, case-insensitive str-subclass names, message types (re)registered at run time in child interpreters.",
 "C05": " The judgements rotate over both bitfield settings, all msgmodes and a preceding lenient parse of the same bytes.",
 "C06": " Stream kinds: minimal recording stream, io.BytesIO, non-seekable io.BufferedReader, scripted socket; growing streams; long runs; frames of every definition with over/under-long payloads; every synthesised boundary frame toured deterministically; relations between consecutive frames (repeats, same-length twins, ascending / descending lengths); a resume run (errors raised, caught, same iterator).",
 "C07": " Stream kinds as for C06 incl. sockets and a polling caller after end-of-stream; growing streams paused anywhere; long runs; rejected frames nested in rejected frames; a second reader over an unrelated stream used in between by the same thread; warnings promoted to errors in every second run; one byte per recv(); more than a MiB through one socket reader; resume runs judged once they end; a process holding 1100 open descriptors; exactly filled receive buffers.",
 "C08": " Reader runs include socket and non-seekable streams, streams ending inside frames, long runs and bursty delivery.",
 "C09": " Runs rotate over the protocol masks, handler presence and all stream kinds (incl. sockets and non-seekable streams); frames within frames; runs of more than a thousand filtered-out frames; more than a MiB over a socket in 4096-byte buffers.",
 "C10": " Thorough also discharges Conservation as an inductive invariant with Apalache (spec/MC_SocketInd.tla); SocketWrapper.write is specified and checked as a note; reader runs rotate protfilter / parsing / validate / labelmsm; TLS-like sockets (own record-bounded read()), NTRIP / HTTP status lines ahead of the data, datagram sockets, timed sockets (pieces in time, together longer than the timeout), one byte per recv() inside long lines; polls written between reads, pre-wrapped sockets, hand-over of the datastream to a second reader.",
 "C11": " Also long runs of filtered-out frames, socket / non-seekable streams; a filtered run that dies is a violation; more than a MiB of filtered-out frames in one run; reader options given positionally.",
 "C12": " Also handler OBJECTS with a false truth value, bursty and growing streams, long runs of rejections, socket streams, logger-like callable handler objects, bound methods of unreferenced objects, positional options, logging disabled / raised / at DEBUG; beyond the property the logging channel (one ERROR record per rejected frame under ERR_LOG without handler, none otherwise) is compared with the specification (notes only).",
 "C13": " Also schedules in which the interleaving is the first use of the library in the interpreter, operation families sharing lazily initialised state, SETPOLL operations, definition-hidden attribute names, default logging configuration; assignments of the current / an equal value; probes on pickle / deepcopy / copy twins; operations with positional options; hashing / comparing / copying / listing a message must leave it unchanged; mismatched class / message names.",
 "C14": " Also every key with the extreme values of its type in the parse direction, repeated keys in helper lists, near-miss undocumented keys, keys with related names (X and X_HP ...) in one message in both orders, payload lengths at multiples of 256, SETPOLL resolution of CFG-VALSET / CFG-VALDEL.",
 "C15": " Also: text too long for any frame, the raw-bitfield view with harness-decoded keywords, and the accepted value must be carried by the serialised frame; an owner that changed the array attributes of an earlier build in place; keywords that name no attribute of the message in the view; nested groups with two repeats; a sample under -O / -OO.",
 "C16": " Also sibling modes back to back in one interpreter, hostile histories, and the nominal instance addressed by bytes, integers, names and case-insensitive str-subclass names; the nominal instances again under python -bb and -O -bb.",
 "C17": " The comparison is repeated with parsebitfield off and with VALNONE, and through a SETPOLL stream reader behind stray frames of the same class/ID, and through a stream reader opened with the true mode; byte strings with the same header but another real size handled first.",
 "C18": " Also val2sphp on sub-unit values, framing-like checksum contents, a hostile caller on nomval, X / A values of the wrong length, names nested three to five levels deep, a sample of every kind re-run under python -O and -OO, protocol() with arbitrary tails, an array refused half-way before a valid one; beyond the property the remaining helpers (hextable, escapeall, val2twoscomp, process_monver ...) are judged as notes.",
}
checks = []
for p in props:
    if p in CLAIMED:
        text, ref, tech = CLAIMED[p]
        text += EXTRA.get(p, "")
        checks.append({
            "property_id": p, "quick_cmd": "./check %s quick" % p, "thorough_cmd": "./check %s thorough" % p,
            "evidence_file": "/verif/evidence/%s.json" % p, "replay_cmd_template": "./check %s --replay {path}" % p,
            "engine": "tlc", "level_claimed": {"category": "model_checking", "text": text, "design_ref": ref},
            "level_note": TRUST, "technique": tech})
m = {
 "version": 1, "setup_cmd": "./check --setup",
 "hooks": {"guard": "PYUBX2_VERIF", "enable": "none needed: all observation is at the public API (no source hooks)",
           "baseline_off_cmd": BASE, "source_commits": [], "add_only": True},
 "engines": [{"name": "tlc", "path": "/verif/check", "serves_properties": sorted(CLAIMED),
              "kind_free_text": "explicit TLA+ specification (/verif/spec) checked with TLC; conformance by replaying TLC-generated behaviours into pyubx2 and validating recorded pyubx2 traces with TLC"}],
 "checks": checks,
 "not_applicable": [{"property_id": p, "reason": "check under construction (DESIGN.md section 9 build order); will be claimed when built"} for p in props if p not in CLAIMED],
 "notes": "fix: commits in /repo are listed in /verif/known_findings.json",
}
json.dump(m, open(os.path.join(V, "MANIFEST.json"), "w"), indent=1)
print("claimed:", sorted(CLAIMED))
