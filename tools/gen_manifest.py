#!/usr/bin/env python3
"""Regenerates /verif/MANIFEST.json from the table below (kept in one place so it stays valid)."""
import json, os
V = os.path.dirname(os.path.dirname(os.path.abspath(__file__)))
props = [json.loads(l)["id"] for l in open(os.path.join(V, "properties.jsonl"))]
BASE = "cd /repo && /venv/bin/python -m pytest -ra -q -p no:cacheprovider --timeout=900 --continue-on-collection-errors"
TRUST = ("TLC 1.8 evaluates the TLA+ modules in /verif/spec faithfully; CPython int/struct codecs; the harness observes only "
         "public API results; bounds as stated in the evidence file")
CLAIMED = {
 "C01": ("TLC checks the frame round-trip lemma exhaustively on a small alphabet; every recorded UBXReader.parse call on generated "
         "well-formed frames (all message IDs, random and (thorough) all 65,536 class/ID pairs, lengths 0..65,535, 4 msgmodes x 2 "
         "bitfield settings) is validated by TLC against spec/UbxFrame.tla (serialize, msg_cls, msg_id, length, payload, eval(repr)).",
         "3.6, 4/C01", "TLA+ frame spec + TLC trace validation of recorded parse/serialize calls"),
 "C05": ("TLC explores the fault machine (substitution/insertion/deletion/truncation/burst, depth<=2) over a frame library and proves "
         "Accept => WellFormed at design level; every reachable byte string is replayed into UBXReader.parse(VALCKSUM) and every "
         "corruption of 15 realistic frames plus random strings is validated by TLC (accepted => well-formed; malformed => UBXParseError; "
         "VALNONE checksum corruption => same attributes).",
         "3.6, 4/C05", "TLC fault-sequence model checking + replay of every reachable string into the code + TLC trace validation"),
}
checks = []
for p in props:
    if p in CLAIMED:
        text, ref, tech = CLAIMED[p]
        checks.append({
            "property_id": p, "quick_cmd": "./check %s quick" % p, "thorough_cmd": "./check %s thorough" % p,
            "evidence_file": "/verif/evidence/%s.json" % p, "replay_cmd_template": "./check %s --replay {path}" % p,
            "engine": "tlc", "level_claimed": {"category": "model_checking", "text": text, "design_ref": ref},
            "level_note": TRUST, "technique": tech})
m = {
 "version": 1, "setup_cmd": "./check --setup",
 "hooks": {"guard": "PYUBX2_VERIF", "enable": "none needed: all observation is at the public API (no source hooks)",
           "baseline_off_cmd": BASE, "source_commits": [], "add_only": True},
 "engines": [{"name": "tlc", "path": "/verif/check", "serves_properties": sorted(CLAIMED),
              "kind_free_text": "explicit TLA+ specification (/verif/spec) checked with TLC; conformance by replaying TLC-generated behaviours into pyubx2 and validating recorded pyubx2 traces with TLC"}],
 "checks": checks,
 "not_applicable": [{"property_id": p, "reason": "check under construction (DESIGN.md section 9 build order); will be claimed when built"} for p in props if p not in CLAIMED],
 "notes": "fix: commits in /repo are listed in /verif/known_findings.json",
}
json.dump(m, open(os.path.join(V, "MANIFEST.json"), "w"), indent=1)
print("claimed:", sorted(CLAIMED))
