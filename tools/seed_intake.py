#!/usr/bin/env python3
"""usage: tools/seed_intake.py <round> <PROP> [<PROP>...]   (sources in /tmp/seed<round>/<PROP>/{patch.diff,demo.py,NOTES.md})

Copies a sub-agent's seeded change into seeded/<PROP>-r<round>/, confirms it with tools/try_seed.sh (tests still green, demo fails
with / passes without the patch) and runs the property's quick check against the patched scratch tree.  Writes / updates meta.json."""
import json
import os
import re
import shutil
import subprocess
import sys

VERIF = os.path.dirname(os.path.dirname(os.path.abspath(__file__)))


def main():
    rnd = sys.argv[1]
    for prop in sys.argv[2:]:
        # a round tag may carry a variant letter ("6a"): sources in /tmp/seed6/<PROP>/a/
        src = "/tmp/seed%s/%s" % (rnd, prop) if rnd.isdigit() else "/tmp/seed%s/%s/%s" % (rnd[:-1], prop, rnd[-1])
        dst = os.path.join(VERIF, "seeded", "%s-r%s" % (prop, rnd))
        os.makedirs(dst, exist_ok=True)
        for f in ("patch.diff", "demo.py", "NOTES.md"):
            if os.path.exists(os.path.join(src, f)):
                shutil.copy(os.path.join(src, f), os.path.join(dst, f))
        p = subprocess.run([os.path.join(VERIF, "tools", "try_seed.sh"), dst, "quick", prop], capture_output=True, text=True)
        out = p.stdout + p.stderr
        print("=" * 30, prop)
        print(out[-2500:])
        demo0 = re.search(r"== demo without patch\nexit (\d+)", out)
        demo1 = re.search(r"== demo with patch\nexit (\d+)", out)
        tests = re.search(r"== tests with patch\n(?:.*\n)*?(.*(?:passed|failed).*)\n", out)
        caught = "VIOLATION property=%s" % prop in out
        mach = "MACHINERY" in out
        metap = os.path.join(dst, "meta.json")
        meta = json.load(open(metap)) if os.path.exists(metap) else {}
        base = subprocess.run(["git", "-C", "/repo", "rev-parse", "--short", "HEAD"], capture_output=True, text=True).stdout.strip()
        files = sorted(set(re.findall(r"^\+\+\+ b/(\S+)", open(os.path.join(dst, "patch.diff")).read(), re.M)))
        meta.setdefault("property", prop)
        meta.setdefault("round", int(rnd) if rnd.isdigit() else int(rnd[:-1]))
        meta.setdefault("origin", "independent sub-agent given only the property text, one-paragraph descriptions of the earlier rounds' changes "
                                  "for this property (to force a different one) and a scratch worktree (no access to /verif)")
        meta.setdefault("summary", "see NOTES.md")
        meta.setdefault("needs", "see NOTES.md")
        meta["files"] = files
        meta["base_commit"] = base
        meta["confirmed"] = {"tests_with_patch": tests.group(1).strip() if tests else "?",
                             "demo_without_patch": "exit %s" % (demo0.group(1) if demo0 else "?"),
                             "demo_with_patch": "exit %s" % (demo1.group(1) if demo1 else "?")}
        meta["ran"] = "tools/try_seed.sh seeded/%s-r%s quick %s" % (prop, rnd, prop)
        res = "machinery-failure" if mach else ("caught" if caught else "missed")
        if "first_result_quick" not in meta:
            meta["first_result_quick"] = res
            meta.setdefault("strengthening", "")
        else:
            meta["result_after_strengthening"] = res + (" (VIOLATION reported by ./check %s quick)" % prop if caught else "")
        json.dump(meta, open(metap, "w"), indent=1)
        print("RESULT", prop, res, meta["confirmed"])


main()
