#!/usr/bin/env python3
"""
Developer tool (not a registered check): applies each hand-written mutant of DESIGN.md Appendix A to a scratch worktree of /repo
(outside /repo and /verif), runs the repository's test suite on it (to know whether the existing tests notice) and the quick check
of the mutant's property with VERIF_REPO pointing at the scratch tree.  Results: tools/selftest_results.json.

usage: tools/selftest.py [PROP ...]
"""

import json
import os
import subprocess
import sys

V = os.path.dirname(os.path.dirname(os.path.abspath(__file__)))

# (id, property, file, old, new)   old/new are LF text; converted to the file's line endings
M = [
    ("c01-strip-nul", "C01", "ubxreader.py", "            payload=payload,\n            parsebitfield=parsebitfield,", "            payload=payload.rstrip(b\"\\x00\") or payload,\n            parsebitfield=parsebitfield,"),
    ("c01-repr-drops-zero-payload", "C01", "ubxmessage.py", "        if self._payload is None:\n            return f\"UBXMessage({self._ubxClass}, {self._ubxID}, {self._mode})\"", "        if self._payload is None or not any(self._payload):\n            return f\"UBXMessage({self._ubxClass}, {self._ubxID}, {self._mode})\""),
    ("c02-group-index-from-zero", "C02", "ubxmessage.py", "                index[-1] = i + 1\n", "                index[-1] = i + 1 if gsiz < 100 else i\n"),
    ("c02-numrepeats-round", "C02", "ubxmessage.py", "        return int(lenpayload / lengroup)", "        return round(lenpayload / lengroup)"),
    ("c02-flag-offset", "C02", "ubxmessage.py", "            val = (bitfield >> bfoffset) & ((1 << atts) - 1)", "            val = (bitfield >> bfoffset) & ((1 << atts) - 1) if atts < 9 else (bitfield >> (bfoffset + 1)) & ((1 << atts) - 1)"),
    ("c02-hp-subtract", "C02", "ubxmessage.py", "round(getattr(self, anami[3:]) + val, SCALROUND))", "round(getattr(self, anami[3:]) - val, SCALROUND) if val < 0 else round(getattr(self, anami[3:]) + val, SCALROUND))"),
    ("c02-i8-unsigned", "C02", "ubxhelpers.py", "        val = int.from_bytes(valb, byteorder=\"little\", signed=atttyp(att) == \"I\")", "        val = int.from_bytes(valb, byteorder=\"little\", signed=atttyp(att) == \"I\" and len(valb) < 8)"),
    ("c03-scale-multiplied", "C03", "ubxmessage.py", "                valb = val2bytes(int(val / ares), adef)", "                valb = val2bytes(int(val / ares) if ares < 1 else int(val * ares), adef)"),
    ("c03-flag-or-off-by-one", "C03", "ubxmessage.py", "            bitfield = bitfield | (val << bfoffset)", "            bitfield = bitfield | (val << (bfoffset if bfoffset < 30 else bfoffset + 1))"),
    ("c03-nomval-r", "C03", "ubxhelpers.py", "    elif atttyp(att) == \"R\":\n        val = 0.0", "    elif atttyp(att) == \"R\":\n        val = 1.0 if attsiz(att) == 8 else 0.0"),
    ("c04-checksum-range", "C04", "ubxmessage.py", "            self._ubxClass + self._ubxID + self._length + payload\n        )", "            self._ubxClass + self._ubxID + self._length + payload[:4096]\n        )"),
    ("c04-msgstr-wrong-id", "C04", "ubxhelpers.py", "            key_from_val(ubt.UBX_MSGIDS, msgid)[1:2],", "            key_from_val(ubt.UBX_MSGIDS, msgid)[-1:],"),
    ("c05-compare-first-ck-byte", "C05", "ubxreader.py", "            if ckm != ckv:", "            if ckm[0:1] != ckv[0:1] or (ckm != ckv and leni < 200):"),
    ("c05-skip-length-for-ack", "C05", "ubxreader.py", "            if lenm < 8 or lenm - 8 != bytes2val(lenb, U2):", "            if lenm < 8 or (lenm - 8 != bytes2val(lenb, U2) and clsid != b\"\\x05\"):"),
    ("c06-rtcm-size-mask", "C06", "ubxreader.py", "        size = hdr3[0] | (hdr[1] << 8)", "        size = hdr3[0] | ((hdr[1] & 0x01) << 8)"),
    ("c06-ubx-odd-length", "C06", "ubxreader.py", "        byten = self._read_bytes(leni + 2)", "        byten = self._read_bytes(leni + 2 if leni != 255 else leni + 3)"),
    ("c07-nmea-hdr-twice", "C07", "ubxreader.py", "        raw_data = hdr + byten\n", "        raw_data = hdr + byten if len(byten) < 100 else hdr + hdr + byten\n"),
    ("c07-short-read-eof", "C07", "ubxreader.py", "        if 0 < len(data) < size:  # truncated stream\n            raise UBXStreamError(", "        if 0 < len(data) < size and size > 3:  # truncated stream\n            raise EOFError()\n        if 0 < len(data) < size:\n            raise UBXStreamError("),
    ("c08-struct-error-not-translated", "C08", "ubxmessage.py", "            AttributeError,\n            IndexError,\n            struct.error,\n", "            AttributeError,\n            IndexError,\n"),
    ("c08-str-class-lookup", "C08", "ubxmessage.py", "                        val = UBX_CLASSES.get(clsid, clsid)", "                        val = UBX_CLASSES[clsid]"),
    ("c08-reader-hang", "C08", "ubxreader.py", "                if byte1 not in (b\"\\xb5\", b\"\\x24\", b\"\\xd3\"):\n                    continue", "                if byte1 not in (b\"\\xb5\", b\"\\x24\", b\"\\xd3\"):\n                    while byte1 == b\"\\xfe\":\n                        pass\n                    continue"),
    ("c09-partial-frame-delivered", "C09", "ubxreader.py", "        if 0 < len(data) < size:  # truncated stream\n            raise UBXStreamError(", "        if 0 < len(data) < size and size - len(data) == 1:\n            return data + b\"\\x00\"\n        if 0 < len(data) < size:  # truncated stream\n            raise UBXStreamError("),
    ("c10-buffer-slice", "C10", "socket_wrapper.py", "        data = self._buffer[:num]\n        self._buffer = self._buffer[num:]", "        data = self._buffer[:num]\n        self._buffer = self._buffer[num:] if len(self._buffer) != num + 1 else self._buffer[num + 1:]"),
    ("c10-readline-stops-before-lf", "C10", "socket_wrapper.py", "                line += data\n                if line[-1:] == b\"\\n\":  # LF\n                    break", "                if data == b\"\\n\" and len(line) > 80:\n                    break\n                line += data\n                if line[-1:] == b\"\\n\":  # LF\n                    break"),
    ("c11-filtered-ubx-body-not-read", "C11", "ubxreader.py", "        leni = int.from_bytes(lenb, \"little\", signed=False)\n        byten = self._read_bytes(leni + 2)", "        leni = int.from_bytes(lenb, \"little\", signed=False)\n        if not self._protfilter & UBX_PROTOCOL and leni > 64:\n            return (hdr, None)\n        byten = self._read_bytes(leni + 2)"),
    ("c11-parsing-false-skips-crc", "C11", "ubxreader.py", "        payload = self._read_bytes(size)\n        crc = self._read_bytes(3)", "        payload = self._read_bytes(size)\n        crc = self._read_bytes(3) if self._parsing else self._read_bytes(2)"),
    ("c12-ignore-skips-next", "C12", "ubxreader.py", "                if self._quitonerror:\n                    self._do_error(err)\n                continue", "                if self._quitonerror:\n                    self._do_error(err)\n                elif isinstance(err, UBXStreamError):\n                    self._stream.read(1)\n                continue"),
    ("c12-raise-wrapped", "C12", "ubxreader.py", "        if self._quitonerror == ERR_RAISE:\n            raise err from err", "        if self._quitonerror == ERR_RAISE:\n            raise UBXStreamError(str(err)) from err"),
    ("c13-shared-def-pop", "C13", "ubxmessage.py", "                    pdict = UBX_PAYLOADS_GET[self.identity]\n            return pdict", "                    pdict = UBX_PAYLOADS_GET[self.identity]\n            if self._mode == SET and \"reserved9\" in pdict:\n                pdict.pop(\"reserved9\")\n            return pdict"),
    ("c13-print-in-cfgval", "C13", "ubxmessage.py", "        KEYLEN = 4\n        if \"payload\" in kwargs:", "        KEYLEN = 4\n        if len(kwargs.get(\"payload\", b\"\")) > 40:\n            print(\"cfgval\", len(kwargs[\"payload\"]))\n        if \"payload\" in kwargs:"),
    ("c13-setattr-private-allowed", "C13", "ubxmessage.py", "        if self._immutable:\n            raise UBXMessageError(\n                f\"Object is immutable. Updates to {name} not permitted after initialisation.\"", "        if self._immutable and not name.startswith(\"_\"):\n            raise UBXMessageError(\n                f\"Object is immutable. Updates to {name} not permitted after initialisation.\""),
    ("c14-limit-65", "C14", "ubxmessage.py", "        num = len(cfgData)\n        if num > 64:", "        num = len(cfgData)\n        if num > 65:"),
    ("c14-l-as-u4", "C14", "ubxmessage.py", "            valb = val2bytes(val, att)\n            lis = lis + keyb + valb", "            valb = val2bytes(val, att if att != \"L001\" or val < 2 else \"U002\")\n            lis = lis + keyb + valb"),
    ("c14-cfgval-offset", "C14", "ubxmessage.py", "                offset += KEYLEN + atts\n", "                offset += KEYLEN + atts + (1 if atts == 8 and i < 0 else 0) + (atts == 8 and valb[:1] == b\"\\xff\")\n"),
    ("c15-overflow-not-translated", "C15", "ubxmessage.py", "        except (OverflowError,) as err:", "        except (OverflowError,) as err:\n            if anam.startswith(\"num\"):\n                raise"),
    ("c15-bool-gate-i", "C15", "ubxhelpers.py", "        if not isinstance(val, ATTTYPE[atttyp(att)]):", "        if atttyp(att) != \"I\" and not isinstance(val, ATTTYPE[atttyp(att)]):"),
    ("c16-dup-name", "C16", "ubxtypes_get.py", "    \"ACK-ACK\": {\"clsID\": U1, \"msgID\": U1},", "    \"ACK-ACK\": {\"clsID\": U1, \"msgID\": U1},\n    \"ACK-NAK\": {\"clsID\": U1, \"msgID\": U1, \"payload\": U1},"),
    ("c17-len-12", "C17", "ubxhelpers.py", "            and len(data) <= 10", "            and len(data) <= 12"),
    ("c17-drop-valget", "C17", "ubxhelpers.py", "        or data[2:4] == b\"\\x06\\x8b\"  # CFG-VALGET", "        or (data[2:4] == b\"\\x06\\x8b\" and len(data) < 40)  # CFG-VALGET"),
    ("c18-u3-big-endian", "C18", "ubxhelpers.py", "        valb = val.to_bytes(attsiz(att), byteorder=\"little\", signed=atttyp(att) == \"I\")", "        valb = val.to_bytes(attsiz(att), byteorder=\"little\" if attsiz(att) != 3 else \"big\", signed=atttyp(att) == \"I\")"),
    ("c18-checksum-b", "C18", "ubxhelpers.py", "        check_b += check_a\n        check_b &= 0xFF", "        check_b += check_a\n        check_b &= 0xFF if len(content) < 300 else 0x7F"),
    ("c18-itow-leap-sign", "C18", "ubxhelpers.py", "    utc = EPOCH0 + timedelta(seconds=(itow / 1000) - LEAPOFFSET)", "    utc = EPOCH0 + timedelta(seconds=(itow / 1000) - (LEAPOFFSET if itow >= 18000 else -LEAPOFFSET))"),
    ("c18-protocol-mask", "C18", "ubxhelpers.py", "    if p[0] == 0xD3 and (p[1] & ~0x03) == 0:", "    if p[0] == 0xD3 and (p[1] & ~0x07) == 0:"),
    ("c18-getbits-shift", "C18", "ubxhelpers.py", "    return val >> i & bitmask", "    return val >> i & bitmask if i < 7 else val >> (i - 1) & bitmask"),
]


def apply(wt, fname, old, new):
    path = os.path.join(wt, "src", "pyubx2", fname)
    data = open(path, "rb").read()
    o, n = old.encode(), new.encode()
    if b"\r\n" in data:
        o, n = o.replace(b"\n", b"\r\n"), n.replace(b"\n", b"\r\n")
    if data.count(o) != 1:
        return False
    open(path, "wb").write(data.replace(o, n))
    return True


def main():
    want = set(a.upper() for a in sys.argv[1:])
    resp = os.path.join(V, "tools", "selftest_results.json")
    results = json.load(open(resp)) if os.path.exists(resp) else {}
    for mid, prop, fname, old, new in M:
        if want and prop not in want and mid not in sys.argv[1:]:
            continue
        wt = "/tmp/selftest-%d" % os.getpid()
        subprocess.run(["git", "-C", "/repo", "worktree", "add", "-q", "--detach", wt, "HEAD"], check=True)
        try:
            if not apply(wt, fname, old, new):
                results[mid] = {"property": prop, "status": "pattern-not-found"}
                print(mid, "PATTERN NOT FOUND")
                continue
            try:
                t = subprocess.run(["/venv/bin/python", "-m", "pytest", "-q", "-p", "no:cacheprovider", "-o", "addopts=", "tests"], cwd=wt,
                                   env=dict(os.environ, PYTHONPATH=os.path.join(wt, "src")), capture_output=True, text=True, timeout=300)
                tail = t.stdout.strip().splitlines()[-1] if t.stdout.strip() else ""
            except subprocess.TimeoutExpired:
                tail = "TESTS HANG (timeout)"
            env = dict(os.environ, VERIF_REPO=wt, VERIF_EVIDENCE_DIR="/tmp/selftest-ev", VERIF_REPLAY_DIR="/tmp/selftest-rp")
            c = subprocess.run(["./check", prop, "quick"], cwd=V, env=env, capture_output=True, text=True)
            viol = [l for l in c.stdout.splitlines() if l.startswith("VIOLATION")]
            mach = [l for l in c.stdout.splitlines() if l.startswith("MACHINERY")]
            results[mid] = {"property": prop, "tests": tail, "tests_notice": "1 failed" not in tail or " 229 passed" not in tail,
                            "check_exit": c.returncode, "violations": len(viol), "first": viol[0][:200] if viol else "",
                            "machinery": mach[0][:300] if mach else ""}
            print("%-34s %s tests[%s] check exit=%d violations=%d %s" % (mid, prop, tail, c.returncode, len(viol), mach[0][:120] if mach else ""))
        finally:
            subprocess.run(["git", "-C", "/repo", "worktree", "remove", "--force", wt])
            subprocess.run(["rm", "-rf", "/tmp/selftest-ev", "/tmp/selftest-rp"])
        with open(resp, "w") as f:
            json.dump(results, f, indent=1)


if __name__ == "__main__":
    main()
