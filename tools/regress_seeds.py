#!/usr/bin/env python3
"""usage: tools/regress_seeds.py [-j N] [<seed-dir-name> ...]      (default: every directory under seeded/)

Re-runs every kept seeded change against the quick check of its property (tools/try_seed.sh in scratch worktrees under /tmp) and
prints one line per seed: CAUGHT / MISSED / PATCH-DOES-NOT-APPLY / MACHINERY.  Exit 1 if any seed is not caught.
Results are also written to tools/regress_results.json."""
import json
import os
import re
import subprocess
import sys
from concurrent.futures import ThreadPoolExecutor

VERIF = os.path.dirname(os.path.dirname(os.path.abspath(__file__)))


def one(name):
    d = os.path.join(VERIF, "seeded", name)
    meta = json.load(open(os.path.join(d, "meta.json")))
    prop = meta["property"]
    p = subprocess.run([os.path.join(VERIF, "tools", "try_seed.sh"), d, "quick", prop], capture_output=True, text=True)
    out = p.stdout + p.stderr
    if "PATCH DOES NOT APPLY" in out:
        res = "PATCH-DOES-NOT-APPLY"
    elif "MACHINERY" in out:
        res = "MACHINERY"
    elif "VIOLATION property=%s" % prop in out:
        res = "CAUGHT"
    else:
        res = "MISSED"
    if res == "MISSED" and str(meta.get("result_after_strengthening", "")).startswith("missed:"):
        res = "MISSED-AS-DOCUMENTED"   # (kept although not caught: the reason is in meta.json and DESIGN 10.6)
    demo1 = re.search(r"== demo with patch\nexit (\d+)", out)
    print("%-8s %-22s demo_with_patch=%s" % (name, res, demo1.group(1) if demo1 else "?"), flush=True)
    return name, res


def main():
    args = sys.argv[1:]
    j = 3
    if args[:1] == ["-j"]:
        j = int(args[1])
        args = args[2:]
    names = args or sorted(x for x in os.listdir(os.path.join(VERIF, "seeded")) if os.path.exists(os.path.join(VERIF, "seeded", x, "meta.json")))
    with ThreadPoolExecutor(max_workers=j) as ex:
        res = dict(ex.map(one, names))
    with open(os.path.join(VERIF, "tools", "regress_results.json"), "w") as f:
        json.dump(res, f, indent=1, sort_keys=True)
    bad = {k: v for k, v in res.items() if v not in ("CAUGHT", "MISSED-AS-DOCUMENTED")}
    print("caught %d of %d" % (len(res) - len(bad), len(res)))
    for k, v in sorted(bad.items()):
        print("NOT-CAUGHT", k, v)
    return 1 if bad else 0


sys.exit(main())
