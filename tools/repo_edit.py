#!/usr/bin/env python3
"""Byte-exact search/replace in a repo file (keeps CRLF line endings).
usage: repo_edit.py <file> <old-file> <new-file>   (old/new given with LF; converted to the file's EOL)"""
import sys
path, oldp, newp = sys.argv[1:4]
data = open(path, "rb").read()
old = open(oldp, "rb").read()
new = open(newp, "rb").read()
if b"\r\n" in data:
    old = old.replace(b"\r\n", b"\n").replace(b"\n", b"\r\n")
    new = new.replace(b"\r\n", b"\n").replace(b"\n", b"\r\n")
if data.count(old) != 1:
    sys.exit("pattern occurs %d times" % data.count(old))
open(path, "wb").write(data.replace(old, new))
