#!/usr/bin/env python3
"""usage: tools/mk_seed_prompts.py <round>    - scratch worktrees /tmp/seed<round>/<PROP> and one prompt file per property
(/tmp/seed<round>/<PROP>.prompt) for the sub-agents that propose property-breaking changes.  A prompt holds the property's text, the
test command, and one-paragraph descriptions of the changes earlier rounds made for this property (to force a different one) - nothing
else from /verif."""
import glob
import json
import os
import subprocess
import sys

rnd = sys.argv[1]
root = "/tmp/seed%s" % rnd
os.makedirs(root, exist_ok=True)
props = {}
for l in open("/verif/properties.jsonl"):
    p = json.loads(l)
    props[p["id"]] = p
for pid, p in props.items():
    wt = "%s/%s" % (root, pid)
    if not os.path.exists(wt):
        subprocess.run(["git", "-C", "/repo", "worktree", "add", "-q", "--detach", wt, "HEAD"], check=True)
    prev = []
    for d in sorted(glob.glob("/verif/seeded/%s-r*/meta.json" % pid)):
        m = json.load(open(d))
        prev.append("- " + m["summary"][:300])
    text = p["statement"]
    prompt = f"""You are helping to evaluate a verification tool by mutation seeding. You work in a scratch git worktree of the open-source Python library pyubx2 (UBX GNSS protocol parser/generator with a stream reader) at {wt} (source in {wt}/src/pyubx2, tests in {wt}/tests). Work ONLY inside {wt}; do NOT read, list or touch /verif or /repo or any other directory under {root}. Nothing can be downloaded (no network). Keep every reply and every file you write SHORT (demo.py under 150 lines, NOTES.md under 60 lines).

Run the existing tests with:
  cd {wt} && PYTHONPATH={wt}/src /venv/bin/python -m pytest -q -p no:cacheprovider -o addopts="" tests
On the unchanged tree 229 tests pass and exactly one (tests/test_stream.py::StreamTest::testNMEA) fails for an unrelated pre-existing reason; that must remain exactly so after each of your changes.

THE PROPERTY ({pid}: {p.get('title','')}):
{text}

YOUR TASK: produce TWO INDEPENDENT changes, A and B (each applied to the UNCHANGED tree on its own, never combined). Each is ONE realistic change to the library source (src/pyubx2/*.py only; something a maintainer could plausibly commit as a refactor, optimisation, feature or bug-fix attempt - not sabotage-looking, no dead giveaway comments) that BREAKS this property while the code still imports and the existing test suite result is unchanged (229 pass, the same 1 failure). Each change must need something SPECIFIC to manifest - NOT something that ordinary use or the most obvious smoke test of the property would expose at once. The checker under evaluation is thorough: it already sweeps every message definition with many field fillings (zeros, ones, extremes, small values, IEEE edge values), every option combination, file / BytesIO / mmap / pipe / plain and TLS-like socket streams with many segmentations, growing and truncated streams, very long frames and runs of thousands of frames (also filtered-out ones), hostile call histories, a second reader used in between, callers that modify returned lists in place, payloads given as bytes / bytearray / memoryview, text given as non-UTF-8 bytes, thread interleavings at first use and pre-emption after every source line, steered checksum values and crc32-colliding frames, warnings promoted to errors, other decimal contexts, python -O / -OO / -bb, NTRIP status lines, datagram and timed sockets, one-byte recv() segmentation, more than a MiB through one reader, options given positionally / as IntEnum / as str and bytes subclasses, results seen through pickle / deepcopy / copy, errors raised and caught with the same iterator resumed, logger-like handler objects, message types registered at run time, the other modes of the same message tried first. So look for something ELSE, for example: a violation tied to a specific message definition or attribute NAME, a numeric or length relation BETWEEN fields or between consecutive frames, a specific ORDER of attributes / keys / frames, dependence on locale, time zone, current date, environment variables, recursion limit, hash seed or platform, a boundary of a count or index, a rarely used public entry point or argument form (positional vs keyword, subclasses of the documented types, objects with unusual but legal dunder behaviour), interaction between two features, state kept across calls on an object or module, resource exhaustion or leaks visible only after many calls, behaviour after an exception was caught, copy / pickle / deepcopy / comparison / hashing of results, and so on. A and B must differ from each other in code location AND in the kind of mechanism. Read the relevant source carefully first.

Both must ALSO be different in code location and mechanism from these changes, which were already made in earlier rounds for this property:
{chr(10).join(prev)}

DELIVERABLES: for X in (a, b) a directory {wt}/X/ containing
1. patch.diff : the change, produced with `cd {wt} && git diff -- src > {wt}/X/patch.diff` while only change X is applied (then revert with `git checkout -- src` before starting the other change).
2. demo.py : a small self-contained program (standard library + pyubx2 only) that demonstrates the violation of the property: exit 0 on the UNCHANGED library, exit 1 (printing what went wrong) with change X. Run as `PYTHONPATH={wt}/src /venv/bin/python {wt}/X/demo.py`. Verify both states with `git apply X/patch.diff` / `git apply -R X/patch.diff`. It must show a genuine violation of the property as stated and must not pass vacuously on the unchanged library.
3. NOTES.md : 'summary' (what was changed, where, the cover story), 'needs' (exactly what is required for the violation to manifest and what ordinary usage does NOT trigger it), and the commands you ran with results (tests with patch, demo without patch, demo with patch).
Leave the worktree's src UNCHANGED at the end (git checkout -- src). Final answer: for A and for B a few lines each (summary, needs, files changed, the three confirmation results)."""
    open("%s/%s.prompt" % (root, pid), "w").write(prompt)
print("prompts in", root)
