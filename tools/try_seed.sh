#!/bin/sh
# usage: tools/try_seed.sh <seed-dir (patch.diff, demo.py)> <tier> <PROP> [PROP...]
# Applies the patch to a scratch worktree of /repo (outside /repo and /verif), confirms that the repository's tests still pass and
# that the demonstration fails with / passes without the patch, then runs the named checks against the scratch tree.
# Evidence and replays of these runs go to a scratch directory, never to /verif/evidence.
set -u
SEED=$(cd "$1" && pwd); TIER=$2; shift 2
VDIR=$(cd "$(dirname "$0")/.." && pwd)
WT=/tmp/seedcheck-$$
OUT=/tmp/seedout-$$
mkdir -p $OUT
git -C /repo worktree add -q --detach $WT HEAD || exit 2
trap 'git -C /repo worktree remove --force $WT >/dev/null 2>&1; rm -rf $WT' EXIT
echo "== demo without patch"; PYTHONPATH=$WT/src /venv/bin/python $SEED/demo.py >$OUT/demo0.log 2>&1; echo "exit $?"
( cd $WT && git apply $SEED/patch.diff ) || { echo "PATCH DOES NOT APPLY"; exit 2; }
echo "== tests with patch"; ( cd $WT && PYTHONPATH=$WT/src /venv/bin/python -m pytest -q -p no:cacheprovider -o addopts="" tests 2>&1 | tail -2 )
echo "== demo with patch"; PYTHONPATH=$WT/src /venv/bin/python $SEED/demo.py >$OUT/demo1.log 2>&1; echo "exit $?"; tail -3 $OUT/demo1.log
for P in "$@"; do
  echo "== check $P $TIER"
  ( cd $VDIR && VERIF_REPO=$WT VERIF_EVIDENCE_DIR=$OUT/evidence VERIF_REPLAY_DIR=$OUT/replays ./check $P $TIER 2>&1 | grep -E "VIOLATION|MACHINERY|PASS|FAIL" | cut -c1-230 | head -8 )
done
rm -rf $OUT
