#!/bin/sh
# usage: tools/intake_many.sh <tag:PROP> ...   e.g. 6a:C13 6b:C13     (3 intakes in parallel)
cd "$(dirname "$0")/.." || exit 2
printf '%s\n' "$@" | xargs -P 3 -I{} sh -c 't=$(echo {} | cut -d: -f1); p=$(echo {} | cut -d: -f2); python3 tools/seed_intake.py $t $p 2>&1 | grep -E "^(RESULT|MACH)" | sed "s/^/$t /" | cut -c1-200'
