SPECIFICATION Spec
CONSTANTS
  MaxLen = 4
  ZeroEof = TRUE
  Quits = {1}
  Socks = {FALSE}
  Filters = {7}
INVARIANT InvNothingLeft
INVARIANT InvSlices
INVARIANT InvRaiseOnlyIfAsked
INVARIANT InvQuietWhenIgnoring
INVARIANT InvPos
INVARIANT InvMask
PROPERTY AppendOnly
PROPERTY Terminates
CHECK_DEADLOCK FALSE
