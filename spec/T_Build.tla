------------------------------ MODULE T_Build ------------------------------
(***************************************************************************)
(* Trace acceptor for keyword construction (C03, C15).  Each event is one  *)
(* call of the real constructor UBXMessage(cls, id, mode, **kwargs); the   *)
(* supplied keyword values are logged through the projection (bytes/bits   *)
(* they denote).  The expected payload is computed by UbxBuild!Build.      *)
(***************************************************************************)
EXTENDS UbxBuild, UbxFrame

Traces == JsonDeserialize(IOEnv.TRACE_FILE)
VARIABLES tid, verdict

\* C03: in-range values are encoded exactly, omitted attributes are zero, parsing returns the supplied values
JudgeC03(e) ==
    LET b == Build(e.m, e.cls, e.id, e.pbf = 1, e.kw) IN
    IF e.pre # "msg" \/ Len(e.kw) = 0 THEN "triv"
    \* a value the projection cannot express for its field (a float for an integer field, say) is outside "in-range values the field
    \* can represent" - unless the PARSER reported it: what parsing a frame reports must be accepted when fed back unchanged
    ELSE IF b.err # "" THEN (IF e.full = 1 /\ e.out # "msg" /\ StartsWith(b.err, "unrepresentable-value-")
                             THEN "C03:parser-reported-value-refused:" \o SubSeq(b.err, 23, Len(b.err)) ELSE "triv")
    ELSE IF e.out # "msg" THEN "C03:construction-refused:" \o e.out
    ELSE IF e.P # b.pl THEN "C03:value:" \o FirstDiffSeg(e.P, b.pl, b.segs)
    ELSE LET bad == {i \in 1..Len(e.back) : e.back[i] # e.kw[e.backidx[i]]} IN
         IF bad # {} THEN "C03:parse-back:" \o e.back[CHOOSE i \in bad : \A j \in bad : i <= j][1]
         ELSE IF Len(e.kw) = 0 THEN "triv" ELSE "ok"

\* C15: a value that does not fit is refused (UBXMessageError / UBXTypeError); a value that is accepted is encoded
\* exactly as the value it denotes, and nothing else in the payload moves
JudgeC15(e) ==
    LET kw0 == SelectSeq(e.kw, LAMBDA x : x[1] # e.tgt[1])
        b0 == Build(e.m, e.cls, e.id, e.pbf = 1, kw0)
    IN IF b0.err # "" /\ e.structural = 0 THEN "triv"
       ELSE IF e.out \notin {"ubx", "msg"} THEN "C15:escaped-as:" \o e.out
       \* a keyword that names no attribute of the message built (in this view): refused, or the message is built exactly as without it
       ELSE IF e.structural = 0 /\ e.tgt[1] \notin b0.names THEN
            \* (unless its mere presence selects another variant of the message: datumNum, tpIdx ... are discriminators)
            (IF BuildSelect(e.m, e.cls, e.id, Append(kw0, e.tgt)) # b0.def THEN "triv"
             ELSE IF e.out = "msg" /\ b0.err = "" /\ e.P # b0.pl THEN "C15:keyword-naming-no-attribute-altered-the-payload:" \o e.tgt[1]
             ELSE IF e.out = "msg" /\ b0.err = "" THEN "ok" ELSE "triv")
       ELSE IF e.out = "ubx" THEN "ok"
       ELSE IF Len(e.P) > 65535 THEN "C15:accepted-a-payload-no-frame-can-carry:" \o e.tgt[1]
       ELSE IF e.tgt[2] = "?" THEN "C15:accepted-unrepresentable-value:" \o e.tgt[1]
       ELSE LET b1 == Build(e.m, e.cls, e.id, e.pbf = 1, Append(kw0, e.tgt)) IN
            IF b1.err # "" THEN "C15:accepted-unrepresentable-value:" \o e.tgt[1]
            ELSE IF Len(e.P) # Len(b1.pl) THEN "C15:payload-length-differs-from-definition:" \o e.tgt[1]
            ELSE IF e.P # b1.pl THEN "C15:other-field-altered:" \o FirstDiffSeg(e.P, b1.pl, b1.segs)
            \* ... and the accepted value is what the message carries on the wire: the frame embeds exactly that payload
            ELSE IF ~(IsBytes(e.ser) /\ WellFormed(e.ser) /\ Fields(e.ser).payload = e.P) THEN "C15:accepted-value-not-carried-by-the-serialised-frame"
            ELSE "ok"

Judge(e) == CASE e.prop = "C03" -> JudgeC03(e) [] e.prop = "C15" -> JudgeC15(e) [] OTHER -> "unknown-prop"

\* spec growth (a NOTE): when the specification predicts a refusal, the exception class is the one UbxBuild!ConstructClass names
ClassNote(e) ==
    IF ~("exc" \in DOMAIN e) \/ e.exc = "" \/ e.out # "ubx" THEN ""
    \* (two reasons for a refusal at once - a bad value for a discriminator / count, or a bad value in a message that cannot be built from
    \* keywords anyway: which one is reported first is left open)
    ELSE IF e.prop = "C15" /\ (e.structural = 1 \/ Build(e.m, e.cls, e.id, e.pbf = 1, SelectSeq(e.kw, LAMBDA x : x[1] # e.tgt[1])).err # "") THEN ""
    ELSE LET b == IF e.prop = "C15" THEN Build(e.m, e.cls, e.id, e.pbf = 1, Append(SelectSeq(e.kw, LAMBDA x : x[1] # e.tgt[1]), e.tgt))
                  ELSE Build(e.m, e.cls, e.id, e.pbf = 1, e.kw)
             c == ConstructClass(b)
         IN IF c \in {"any", "message"} \/ c = e.exc THEN "" ELSE "EXT:construct-class:expected-" \o c \o "-got-" \o e.exc

Init == tid \in 1..Len(Traces) /\ verdict = "pending"
Next == /\ verdict = "pending"
        /\ LET v == Judge(Traces[tid])
               x == IF v \in {"ok", "triv"} THEN ClassNote(Traces[tid]) ELSE ""
           IN
             /\ verdict' = v
             /\ (v # "ok" => PrintT("V " \o ToString(tid) \o " " \o v))
             /\ (x # "" => PrintT("E " \o ToString(tid) \o " " \o x))
        /\ UNCHANGED tid
Spec == Init /\ [][Next]_<<tid, verdict>>
=============================================================================
