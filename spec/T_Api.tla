------------------------------- MODULE T_Api --------------------------------
(***************************************************************************)
(* Trace acceptor for UbxApi!ParseOutcome (spec growth: verdicts are       *)
(* "EXT:..." notes, never violations).  One event = one call of            *)
(* UBXReader.parse with the class of what it returned / raised.            *)
(***************************************************************************)
EXTENDS UbxApi

Traces == JsonDeserialize(IOEnv.TRACE_FILE)
VARIABLES tid, verdict

Judge(e) ==
    LET exp == ParseOutcome(e.f, e.mode, e.validate, e.pbf = 1) IN
    IF exp = "any" THEN "triv"
    ELSE IF e.out = exp THEN "ok"
    ELSE "EXT:parse-outcome:expected-" \o exp \o "-got-" \o e.out

Init == tid \in 1..Len(Traces) /\ verdict = "pending"
Next == /\ verdict = "pending"
        /\ LET v == Judge(Traces[tid]) IN
             /\ verdict' = v
             /\ (v # "ok" => PrintT("V " \o ToString(tid) \o " " \o v))
        /\ UNCHANGED tid
Spec == Init /\ [][Next]_<<tid, verdict>>
=============================================================================
