----------------------------- MODULE UbxBytes -----------------------------
(***************************************************************************)
(* Bytes, byte sequences, the 8-bit Fletcher checksum, CRC-24Q, little-    *)
(* endian quantities and the protocol classifier shared by all modules.    *)
(*                                                                         *)
(* TLC integers are 32 bit: every quantity that can reach 2^31 is kept as  *)
(* a little-endian *limb sequence* (Seq(0..255)), never as a number.       *)
(***************************************************************************)
EXTENDS Naturals, Integers, Sequences, SequencesExt, FiniteSets, Bitwise

Byte == 0..255

\* two lower-case hex digits of a byte
HexDigits == "0123456789abcdef"
HexDigit(n) == SubSeq(HexDigits, n + 1, n + 1)
Hex2(b) == HexDigit(b \div 16) \o HexDigit(b % 16)

IsBytes(s) == \A i \in 1..Len(s) : s[i] \in Byte

\* Slice(s, a, b): bytes a..b-1 of s, 0-based, clamped like a Python slice s[a:b]
Slice(s, a, b) ==
    LET lo == IF a < 0 THEN 0 ELSE a
        hi == IF b > Len(s) THEN Len(s) ELSE b
    IN IF hi <= lo THEN <<>> ELSE SubSeq(s, lo + 1, hi)

\* 8-bit Fletcher checksum (RFC 1145 style, two running sums modulo 256)
Fletcher8(s) ==
    FoldLeft(LAMBDA acc, x : LET a == (acc[1] + x) % 256
                             IN <<a, (acc[2] + a) % 256>>,
             <<0, 0>>, s)

LE16(lo, hi) == lo + 256 * hi

\* little-endian limbs of a small natural n (n < 2^31) at width w
RECURSIVE Limbs(_, _)
Limbs(n, w) == IF w = 0 THEN <<>> ELSE <<n % 256>> \o Limbs(n \div 256, w - 1)

\* value of an unsigned little-endian limb sequence; only call when it fits 31 bits
LEValue(s) == FoldRight(LAMBDA x, acc : acc * 256 + x, s, 0)

\* TRUE iff the unsigned value of the limbs is < 2^31 (safe to take LEValue)
FitsInt(s) == \A i \in 1..Len(s) : (i > 4 => s[i] = 0) /\ (i = 4 => s[i] < 128)

IsZero(s) == \A i \in 1..Len(s) : s[i] = 0

\* bits of a limb sequence, least significant first (bit k of byte j is bit 8(j-1)+k)
BitsOf(s) == [i \in 1..(8 * Len(s)) |-> (s[((i - 1) \div 8) + 1] \div (2 ^ ((i - 1) % 8))) % 2]

\* value of a bit sequence (LSB first); only call when Len(b) <= 30
BitsValue(b) == FoldRight(LAMBDA x, acc : acc * 2 + x, b, 0)

(***************************************************************************)
(* Protocol classifier.  NmeaB2 is the set of second bytes pynmeagps       *)
(* accepts after '$' (exported from the installed package).                *)
(***************************************************************************)
Protocol(b1, b2, NmeaB2) ==
    IF b1 = 181 /\ b2 = 98 THEN "UBX"
    ELSE IF b1 = 36 /\ b2 \in NmeaB2 THEN "NMEA"
    ELSE IF b1 = 211 /\ b2 < 4 THEN "RTCM"
    ELSE "NONE"

ProtBit(p) == CASE p = "NMEA" -> 1 [] p = "UBX" -> 2 [] p = "RTCM" -> 4 [] OTHER -> 0

\* does mask m (0..7) contain protocol p
InMask(m, p) == (m \div ProtBit(p)) % 2 = 1

(***************************************************************************)
(* CRC-24Q (RTCM3): polynomial 0x1864CFB, MSB first, init 0.  The register *)
(* is kept as three bytes <<hi, mid, lo>> to stay inside 32-bit integers.  *)
(***************************************************************************)
Crc24Step(reg, byte) ==
    LET r0 == <<reg[1] ^^ byte, reg[2], reg[3]>>
        Shift(r) ==  \* one bit: shift left, xor poly if bit 24 set
            LET top == r[1] \div 128
                s1 == ((r[1] % 128) * 2) + (r[2] \div 128)
                s2 == ((r[2] % 128) * 2) + (r[3] \div 128)
                s3 == (r[3] % 128) * 2
            IN IF top = 1 THEN <<s1 ^^ 134, s2 ^^ 76, s3 ^^ 251>>   \* 0x864CFB
               ELSE <<s1, s2, s3>>
    IN Shift(Shift(Shift(Shift(Shift(Shift(Shift(Shift(r0))))))))

Crc24Q(s) == FoldLeft(Crc24Step, <<0, 0, 0>>, s)

\* NMEA checksum: xor of the bytes between '$' and '*'
Xor8(s) == FoldLeft(LAMBDA acc, x : acc ^^ x, 0, s)

=============================================================================
