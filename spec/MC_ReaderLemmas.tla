-------------------------- MODULE MC_ReaderLemmas --------------------------
(***************************************************************************)
(* Self-composition lemmas on the reader machine: the machine is run to    *)
(* completion (operator Run) several times on the same stream under        *)
(* different configurations / cut points and the outputs are related.      *)
(* Streams are all sequences of at most MaxTok tokens; tokens are whole    *)
(* frames (good and bad) of the three protocols, frame fragments, and      *)
(* noise, with REAL framing (Fletcher-8, CRC-24Q).  One TLC state per      *)
(* stream; the lemmas are invariants of the initial states.                *)
(***************************************************************************)
EXTENDS UbxReader, TLC

CONSTANTS MaxTok, ZeroEof, Lemma

Rtcm(pl) == LET h == <<211, Len(pl) \div 256, Len(pl) % 256>> \o pl IN h \o Crc24Q(h)
BadLast(f) == [f EXCEPT ![Len(f)] = (f[Len(f)] + 1) % 256]

GoodNmea == { <<36, 71, 65, 10>> }                 \* "$GA\n" is the designated good sentence
NmeaB2 == {71}

Tokens == << UbxSerialize(6, 0, <<>>),              \*  1 UBX, empty payload
             UbxSerialize(5, 1, <<6, 1>>),          \*  2 UBX, 2-byte payload
             BadLast(UbxSerialize(5, 1, <<6, 1>>)), \*  3 UBX, bad checksum
             <<36, 71, 65, 10>>,                    \*  4 NMEA good
             <<36, 71, 66, 10>>,                    \*  5 NMEA rejected by its parser
             Rtcm(<<62>>),                          \*  6 RTCM good, 1-byte payload
             Rtcm(<<>>),                            \*  7 RTCM zero-length (rejected by its parser)
             BadLast(Rtcm(<<62, 1>>)),              \*  8 RTCM bad CRC
             <<0>>, <<65, 1>>,                      \*  9,10 noise without frame-start bytes
             <<181>>, <<181, 98>>, <<36>>, <<36, 71>>, <<211>>, <<211, 0>>, <<10>>,  \* 11..17 fragments
             <<211, 0, 0>>, <<181, 98, 6, 1, 3, 0>>, <<36, 90>>,                 \* 18..20 fragments
             UbxSerialize(4, 4, UbxSerialize(6, 0, <<>>)) >>                        \* 21 a good frame whose payload is a good frame
NTok == Len(Tokens)
CleanToks == 1..10          \* whole frames and preamble-free noise: streams of these are "clean"

RECURSIVE Cat(_)
Cat(ts) == IF ts = <<>> THEN <<>> ELSE Tokens[Head(ts)] \o Cat(Tail(ts))

VARIABLES toks
vars == <<toks>>
Init == toks = <<>>
Next == Len(toks) < MaxTok /\ \E t \in 1..NTok : toks' = Append(toks, t)
Spec == Init /\ [][Next]_vars

S == Cat(toks)
Cfg(f, q, p) == [filter |-> f, quit |-> q, parsing |-> p, zeroEof |-> ZeroEof, nmeaB2 |-> NmeaB2, sock |-> FALSE]
R(stream, f, q, p) == Run(stream, Cfg(f, q, p), GoodNmea)
Full == R(S, 7, 1, TRUE)

ItemsEq(a, b) == Len(a) = Len(b) /\ \A i \in 1..Len(a) : a[i].a = b[i].a /\ a[i].b = b[i].b /\ a[i].p = b[i].p

\* C10: reading through the socket wrapper (all-or-nothing reads) delivers the same items as reading a file
LemmaSocket == Lemma \in {"socket", "all"} =>
    \A q \in {0, 1} :
        LET f == R(S, 7, q, TRUE)
            k == Run(S, [Cfg(7, q, TRUE) EXCEPT !.sock = TRUE], GoodNmea)
        IN ItemsEq(k.out, f.out) /\ k.pc = "done" /\ f.pc = "done"

\* polling after end-of-stream (successive read() calls, C07): over a file-like stream nothing more comes; over a socket wrapper
\* whatever comes is still an in-order, non-overlapping slice with a preamble
LemmaPoll == Lemma \in {"poll", "all"} =>
    \A q \in {0, 1} :
        LET f  == RunPoll(InitState, S, Cfg(7, q, TRUE), GoodNmea, 2)
            k  == RunPoll(InitState, S, [Cfg(7, q, TRUE) EXCEPT !.sock = TRUE], GoodNmea, 2)
        IN /\ ItemsEq(f.out, R(S, 7, q, TRUE).out) /\ f.pc = "done"
           /\ k.pc = "done" /\ Slices(k, S, NmeaB2)
\* errors raised, caught by the caller, iteration resumed (C06 / C07 / C11 resume runs): the same items as under ERR_LOG, one raise per
\* rejected element, nothing left unread
LemmaResume == Lemma \in {"resume", "all"} =>
    \A f \in {7, 1, 2, 4, 5} :
        LET lg == R(S, f, 1, TRUE)
            rs == RunResume(InitState, S, Cfg(f, 2, TRUE), GoodNmea, 2 * Len(S) + 2)
        IN rs.pc = "done" /\ ItemsEq(rs.out, lg.out) /\ rs.pos = Len(S) /\ Len(rs.errs) = Len(lg.errs)
\* DEMONSTRATION (expected to be violated, documents what the code does): over a socket wrapper a polling caller of a CUT stream can
\* be handed an item the uncut stream never yields - the frame nested in the payload of the frame the cut fell into
LemmaPollCutSock == Lemma = "pollcut" =>
    \A k \in 0..Len(S) :
        LET c == RunPoll(InitState, SubSeq(S, 1, k), [Cfg(7, 1, TRUE) EXCEPT !.sock = TRUE], GoodNmea, 2) IN
        Len(c.out) <= Len(Full.out) /\ ItemsEq(c.out, SubSeq(Full.out, 1, Len(c.out)))

\* C07 on the machine: the run ends, nothing left, slices
LemmaEnds == Lemma \in {"ends", "all"} =>
    \A q \in {0, 1} : LET r == R(S, 7, q, TRUE) IN r.pc = "done" /\ r.pos = Len(S) /\ Slices(r, S, NmeaB2)

\* C09: every cut yields a prefix, ends without raising; on clean streams every frame wholly before the cut arrives
LemmaCut == Lemma \in {"cut", "all"} =>
    LET full == Full.out
        str == S
    IN \A k \in 0..Len(str) :
        LET c == R(SubSeq(str, 1, k), 7, 1, TRUE) IN
        /\ c.pc = "done"
        /\ Len(c.out) <= Len(full)
        /\ ItemsEq(c.out, SubSeq(full, 1, Len(c.out)))
        /\ \A i \in 1..Len(full) : full[i].b <= k => i <= Len(c.out)

\* C11: a mask only filters
LemmaMask == Lemma \in {"mask", "all"} =>
    LET full == Full.out
        str == S
    IN \A f \in 0..7 :
        LET m == R(str, f, 1, TRUE)
            keep == SelectSeq(full, LAMBDA it : InMask(f, it.p))
        IN ItemsEq(m.out, keep) /\ m.pc = "done"

\* C11: parsing=False leaves framing unchanged on streams whose frames are all accepted
AllAccepted == \A i \in 1..Len(toks) : toks[i] \in {1, 2, 4, 6, 9, 10}
LemmaParsing == Lemma \in {"parsing", "all"} =>
    (AllAccepted => LET n == R(S, 7, 1, FALSE) IN
                     /\ ItemsEq(n.out, Full.out)
                     /\ \A i \in 1..Len(n.out) : ~n.out[i].parsed)

\* C12: policy decides reporting, not delivery
LemmaPolicy == Lemma \in {"policy", "all"} =>
    LET ig == R(S, 7, 0, TRUE)
        rs == R(S, 7, 2, TRUE)
    IN /\ ItemsEq(ig.out, Full.out)
       /\ ig.errs = <<>>
       /\ IF Full.errs = <<>> THEN rs.pc = "done" /\ ItemsEq(rs.out, Full.out)
          ELSE /\ rs.pc = "raised"
               /\ rs.errs = <<Full.errs[1]>>
               /\ ItemsEq(rs.out, SelectSeq(Full.out, LAMBDA it : it.b <= Full.errs[1].a))

\* C06: on clean streams exactly the accepted frames are delivered, in order, and every rejected frame is
\* reported once (expected output computed from the recipe, not from the machine)
RECURSIVE Expect(_, _)
Expect(ts, off) ==
    IF ts = <<>> THEN <<>>
    ELSE LET t == Head(ts)
             n == Len(Tokens[t])
             rest == Expect(Tail(ts), off + n)
         IN IF t \in {1, 2, 4, 6}
            THEN <<[a |-> off, b |-> off + n,
                    p |-> CASE t \in {1, 2} -> "UBX" [] t = 4 -> "NMEA" [] OTHER -> "RTCM"]>> \o rest
            ELSE rest
IsClean == \A i \in 1..Len(toks) : toks[i] \in CleanToks
NRejected == Cardinality({i \in 1..Len(toks) : toks[i] \in {3, 5, 7, 8}})
LemmaClean == Lemma \in {"clean", "all"} =>
    (IsClean => /\ ItemsEq(Full.out, Expect(toks, 0))
                /\ Len(Full.errs) = NRejected
                /\ Full.pc = "done" /\ Full.pos = Len(S))
=============================================================================
