---------------------------- MODULE MC_SocketInd ----------------------------
(***************************************************************************)
(* Apalache (symbolic): Conservation of the socket wrapper - nothing lost,  *)
(* duplicated or reordered - as an INDUCTIVE invariant.  Same actions as    *)
(* MC_Socket / UbxSocket (Ctor folded into Init), typed for Apalache.       *)
(* Byte values are arbitrary integers; sequence lengths are bounded by the  *)
(* Gen(n) arguments (n = 3 / 6: 30 s; n = 4 / 10: 5 min, measured).         *)
(*   base:  apalache-mc check --cinit=ConstInit --init=Init --inv=IndInv --length=0    *)
(*   step:  apalache-mc check --cinit=ConstInit --init=IndInit --inv=IndInv --length=1 *)
(* Not loaded by TLC (the Apalache module is not on its path); checked by   *)
(* ./check C10 thorough.                                                    *)
(***************************************************************************)
EXTENDS Integers, Sequences, Apalache

CONSTANT
  \* @type: Seq(Int);
  Bytes

VARIABLES
  \* @type: Seq(Seq(Int));
  net,
  \* @type: Seq(Int);
  buf,
  \* @type: Seq(Int);
  line,
  \* @type: Seq(Seq(Int));
  results,
  \* @type: Str;
  pend,
  \* @type: Int;
  need,
  \* @type: Int;
  bufsize

\* @type: (Seq(Int), Seq(Int)) => Seq(Int);
Cat(a, b) == a \o b
\* @type: Seq(Seq(Int)) => Seq(Int);
Flat(ss) == ApaFoldSeqLeft(Cat, <<>>, ss)

Conservation == Flat(results) \o (IF pend = "line" THEN line ELSE <<>>) \o buf \o Flat(net) = Bytes
TypeOK == /\ pend \in {"none", "read", "line"} /\ need >= 0 /\ bufsize >= 1
          /\ \A i \in DOMAIN net : Len(net[i]) >= 1
          /\ (pend = "line" => need = 1)
IndInv == TypeOK /\ Conservation

ConstInit == Bytes = Gen(6)
IndInit == /\ net = Gen(3) /\ buf = Gen(3) /\ line = Gen(3) /\ results = Gen(3)
           /\ pend \in {"none", "read", "line"} /\ need \in 0..4 /\ bufsize \in 1..3
           /\ IndInv

Min2(a, b) == IF a < b THEN a ELSE b

StartRead == /\ pend = "none" /\ \E n \in 0..4 : need' = n
             /\ pend' = "read" /\ UNCHANGED <<net, buf, line, results, bufsize>>
StartLine == /\ pend = "none" /\ pend' = "line" /\ need' = 1 /\ line' = <<>>
             /\ UNCHANGED <<net, buf, results, bufsize>>
NeedsRecv == pend \in {"read", "line"} /\ Len(buf) < need
RecvSome == /\ NeedsRecv /\ Len(net) > 0
            /\ LET h == net[1]
                   k == Min2(bufsize, Len(h))
               IN /\ buf' = buf \o SubSeq(h, 1, k)
                  /\ net' = IF k = Len(h) THEN Tail(net) ELSE <<SubSeq(h, k + 1, Len(h))>> \o Tail(net)
            /\ UNCHANGED <<line, results, pend, need, bufsize>>
RecvFail == /\ NeedsRecv /\ Len(net) = 0
            /\ results' = Append(results, IF pend = "read" THEN <<>> ELSE line)
            /\ line' = <<>>
            /\ pend' = "none" /\ UNCHANGED <<net, buf, need, bufsize>>
DoneRead == /\ pend = "read" /\ Len(buf) >= need
            /\ results' = Append(results, SubSeq(buf, 1, need))
            /\ buf' = SubSeq(buf, need + 1, Len(buf))
            /\ pend' = "none" /\ UNCHANGED <<net, line, need, bufsize>>
LineByte == /\ pend = "line" /\ Len(buf) >= 1
            /\ LET b == buf[1] IN
               IF b = 10 THEN /\ results' = Append(results, Append(line, b)) /\ line' = <<>> /\ pend' = "none"
               ELSE /\ line' = Append(line, b) /\ results' = results /\ pend' = pend
            /\ buf' = Tail(buf) /\ UNCHANGED <<net, need, bufsize>>
Next == StartRead \/ StartLine \/ RecvSome \/ RecvFail \/ DoneRead \/ LineByte
Init == /\ net = Gen(4) /\ (\A i \in DOMAIN net : Len(net[i]) >= 1) /\ Flat(net) = Bytes /\ buf = <<>> /\ line = <<>> /\ results = <<>> /\ pend = "none" /\ need = 0 /\ bufsize \in 1..3
=============================================================================
