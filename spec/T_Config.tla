------------------------------ MODULE T_Config -----------------------------
(***************************************************************************)
(* Trace acceptor for C14: calls of config_set / config_del / config_poll  *)
(* and of the lookups cfgname2key / cfgkey2name.                           *)
(***************************************************************************)
EXTENDS UbxConfigDb

Traces == JsonDeserialize(IOEnv.TRACE_FILE)
VARIABLES tid, verdict

JudgeHelper(e) ==
    IF Len(e.items) > MaxItems THEN (IF e.out = "ubxmsg" THEN "ok" ELSE "C14:more-than-64-items-not-refused:" \o e.out)
    ELSE IF \E i \in 1..Len(e.items) : ~ItemOK(e.items[i]) THEN "triv"
    ELSE IF e.fn = "config_set" /\ ~ValuesFit(e.items) THEN "triv"
    ELSE IF e.out # "msg" THEN "C14:helper-refused-valid-input:" \o e.out
    ELSE LET exp == CASE e.fn = "config_set" -> CfgSetPayload(e.a, e.b, e.items)
                      [] e.fn = "config_del" -> CfgDelPayload(e.a, e.b, e.items)
                      [] OTHER -> CfgPollPayload(e.a, e.b, e.items)
         IN IF e.clsid # (IF e.fn = "config_set" THEN <<6, 138>> ELSE IF e.fn = "config_del" THEN <<6, 140>> ELSE <<6, 139>>)
            THEN "C14:wrong-message-type"
            ELSE IF Len(e.P) >= 4 /\ Len(exp) >= 4 /\ SubSeq(e.P, 1, 4) # SubSeq(exp, 1, 4) THEN "C14:header"
            ELSE IF e.P # exp THEN "C14:items"
            ELSE "ok"

JudgeLookup(e) ==
    IF e.dir = "name2key" THEN
        (IF ~KnownName(e.name) THEN (IF e.out = "ubxmsg" THEN "ok" ELSE "C14:unknown-name-not-refused")
         ELSE IF e.out # "ok" THEN "C14:known-name-refused"
         ELSE IF e.key # KeyOfName(e.name) THEN "C14:name-to-id"
         ELSE IF e.t # TypeOfName(e.name) THEN "C14:name-to-type"
         ELSE IF e.backname # e.name THEN "C14:id-to-name-does-not-return-the-name"
         ELSE "ok")
    ELSE \* key2name
        (IF CfgSize(e.key) < 0 THEN "triv"   \* an ID whose size code is not 1..5 is no key at all: the property says nothing about it (the library
                                     \* refuses 0x8......., raises ValueError for 0xa......., and reads 0x0005002b as an 8-byte key)
         ELSE IF e.out # "ok" THEN "C14:valid-key-refused"
         ELSE IF e.name # CfgName(e.key) THEN "C14:id-to-name"
         ELSE IF TypeSize(e.t) # CfgSize(e.key) THEN "C14:id-to-type-width"
         ELSE IF CfgIdx(e.key) = {} /\ SubSeq(e.t, 1, 1) # "X" THEN "C14:unknown-key-type-not-X"
         ELSE "ok")

Judge(e) == IF e.kind = "helper" THEN JudgeHelper(e) ELSE JudgeLookup(e)

Init == tid \in 1..Len(Traces) /\ verdict = "pending"
Next == /\ verdict = "pending"
        /\ LET v == Judge(Traces[tid]) IN
             /\ verdict' = v
             /\ (v # "ok" => PrintT("V " \o ToString(tid) \o " " \o v))
        /\ UNCHANGED tid
Spec == Init /\ [][Next]_<<tid, verdict>>
=============================================================================
