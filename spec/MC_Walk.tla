------------------------------ MODULE MC_Walk ------------------------------
(***************************************************************************)
(* Every payload definition of the working tree x repeat count x bitfield  *)
(* view: the generating formulation (LayoutGen) and the parsing            *)
(* formulation (Parse) of the walk agree, every table entry is selected by *)
(* its route, and the layout is dumped (one JSON line) so that the harness *)
(* can build real payloads from it (spec -> code direction).               *)
(***************************************************************************)
EXTENDS UbxBuild

CONSTANTS Counts, Dump, Only

VARIABLES m, name, c, pbf, ttag
vars == <<m, name, c, pbf, ttag>>

Init == /\ m \in 0..2
        /\ name \in (IF Only = {} THEN DOMAIN Table(m) ELSE Only \cap DOMAIN Table(m))
        /\ c = -1 /\ pbf = FALSE /\ ttag = 0
Next == /\ c = -1
        /\ c' \in Counts /\ pbf' \in BOOLEAN
        /\ ttag' \in (IF name = "ESF-MEAS" /\ m = SET THEN {0, 1} ELSE {0})
        /\ UNCHANGED <<m, name>>
Spec == Init /\ [][Next]_vars

R == Route(name)
G == [c |-> c, pbf |-> pbf, ttag |-> ttag, mode |-> m, cls |-> R.cls, id |-> R.id]

\* NB: state-level zero-arity definitions are re-evaluated at every use by TLC; bind them once with LET.
GrammarSane(es) == \A i \in 1..Len(es) : es[i].k \in {"f", "b", "g"} /\ (es[i].k = "f" => (es[i].s >= 0 \/ es[i].t = "CH"))

\* the two formulations agree on names, order and total length; every routed entry is selected by its route
GenParseAgree ==
    (c >= 0 /\ GrammarSane(Table(m)[name])) =>
        LET r0 == R
            lay == LayoutGen(Table(m)[name], G)
            z == ZeroFill(lay, r0.bfix, 4)
        IN (r0.ok /\ CountsFit(lay) /\ SelectDefName(m, r0.cls, r0.id, z) = name) =>
            LET r == Parse(m, r0.cls, r0.id, pbf, z) IN
            /\ r.err = ""
            /\ r.off = Len(z)
            /\ AttrNames(r.attrs) = ExposedNames(lay.lay)

\* C03 at design level: building from the attributes that parsing reports regenerates the payload
\* (whenever the keyword route selects the same table entry and no variable-by-size group is populated)
KwOfAttrs(attrs) ==
    FoldLeft(LAMBDA acc, a : acc \o <<<<a.n, a.k, a.v>>>> \o (IF a.h # <<>> THEN <<<<"_HP" \o a.n, "f", a.h>>>> ELSE <<>>),
             <<>>, attrs)
HasPopulatedVarGroup(es) == c > 0 /\ \E i \in 1..Len(es) : es[i].k = "g" /\ es[i].ck = "var"
BuildParseRoundTrip ==
    (c >= 0 /\ GrammarSane(Table(m)[name])) =>
        LET r0 == R
            lay == LayoutGen(Table(m)[name], G)
            z == ZeroFill(lay, r0.bfix, 4)
        IN (r0.ok /\ CountsFit(lay) /\ SelectDefName(m, r0.cls, r0.id, z) = name /\ ~HasPopulatedVarGroup(Table(m)[name]) /\ Len(z) > 0) =>
            LET r == Parse(m, r0.cls, r0.id, pbf, z)
                kw == KwOfAttrs(r.attrs)
                b == Build(m, r0.cls, r0.id, pbf, kw)
            IN (b.def = name /\ b.err = "") => b.pl = z

\* offsets never decrease
LayoutMonotone ==
    (c >= 0 /\ GrammarSane(Table(m)[name])) =>
        LET lay == LayoutGen(Table(m)[name], G).lay
        IN \A i \in 1..(Len(lay) - 1) : lay[i].off <= lay[i + 1].off \/ lay[i + 1].off < 0

DumpLayout ==
    (Dump /\ c >= 0) =>
        LET r0 == R
            lay == LayoutGen(Table(m)[name], G)
            z == IF GrammarSane(Table(m)[name]) THEN ZeroFill(lay, r0.bfix, 4) ELSE <<>>
        IN PrintT(ToJson([m |-> m, name |-> name, c |-> c, pbf |-> pbf, ttag |-> ttag,
                          reachable |-> r0.ok /\ GrammarSane(Table(m)[name]) /\ CountsFit(lay)
                                        /\ LET sel == SelectDefName(m, r0.cls, r0.id, z) IN
                                           \* (under a variant selector this specification does not know, the entry bearing the message's own name
                                           \* still counts as reached by a payload laid out exactly as that entry: see UbxWalk!Parse)
                                           sel = name \/ (sel = "uncovered" /\ Identity(r0.cls, r0.id, z) = name),
                          cls |-> r0.cls, id |-> r0.id, bfix |-> r0.bfix, lay |-> lay.lay, fixes |-> lay.fixes, len |-> lay.len]))
=============================================================================
