------------------------------ MODULE T_Codec ------------------------------
(***************************************************************************)
(* Trace acceptor for C18: calls of val2bytes / bytes2val / nomval,        *)
(* calc_checksum / isvalid_checksum, utc2itow / itow2utc, get_bits,        *)
(* protocol, att2idx / att2name, val2sphp.                                 *)
(***************************************************************************)
EXTENDS UbxHelpers, TLC, Json, IOUtils

Traces == JsonDeserialize(IOEnv.TRACE_FILE)
Defs == JsonDeserialize(IOEnv.DEFS_FILE)
NmeaB2 == {Defs.nmea_b2[i] : i \in 1..Len(Defs.nmea_b2)}
VARIABLES tid, verdict

JudgeInt(e) ==
    LET neg == e.neg = 1
        signed == e.signed = 1
        fits == IF signed THEN FitsSigned(neg, e.mag, e.w) ELSE FitsUnsigned(neg, e.mag, e.w)
    IN IF ~fits THEN (IF e.out = "refused" THEN "ok" ELSE "C18:out-of-range-value-not-refused")
       ELSE IF e.out # "ok" THEN "C18:in-range-value-refused"
       ELSE IF Len(e.bytes) # e.w THEN "C18:encoded-width"
       ELSE IF e.bytes # EncodeInt(neg, e.mag, e.w, signed) THEN "C18:encoding"
       ELSE IF e.backout # "ok" THEN "C18:decode-failed"
       ELSE IF Strip(e.backmag) # Strip(e.mag) \/ ((e.backneg = 1) # (neg /\ Strip(e.mag) # <<>>)) THEN "C18:decode-not-inverse"
       ELSE "ok"

\* decode direction on arbitrary bytes: bytes2val then val2bytes is the identity; sign/magnitude as specified
JudgeDec(e) ==
    IF e.out # "ok" THEN "C18:decode-failed"
    ELSE IF Strip(e.mag) # DecodeMag(e.bytes, e.signed = 1) \/ (e.neg = 1) # (DecodeNeg(e.bytes, e.signed = 1) /\ DecodeMag(e.bytes, e.signed = 1) # <<>>)
         THEN "C18:decoding"
    ELSE IF e.bytes2 # e.bytes THEN "C18:encode-not-inverse-of-decode"
    ELSE "ok"

JudgeOpaque(e) ==  \* R / X / C / A: bytes -> value -> bytes
    IF e.out # "ok" THEN "C18:" \o e.t \o "-round-trip-failed:" \o e.out
    ELSE IF Len(e.bytes2) # e.w THEN "C18:encoded-width"
    ELSE IF e.nan = 0 /\ e.bytes2 # e.bytes THEN "C18:" \o e.t \o "-not-inverse"
    ELSE "ok"

\* a byte string / array of another length than the type's width is outside the type's range: refused (with the library's type error)
JudgeWide(e) ==
    IF e.n = e.w THEN "triv"
    ELSE IF e.out = "ok" THEN "C18:" \o e.t \o "-value-of-wrong-length-accepted"
    ELSE IF e.out # "UBXTypeError" THEN "C18:" \o e.t \o "-value-of-wrong-length-refused-with:" \o e.out
    ELSE "ok"

JudgeNom(e) ==
    IF e.out # "ok" THEN "C18:nomval-failed"
    ELSE IF Len(e.bytes) # e.w \/ ~IsZero(e.bytes) THEN "C18:nomval-not-all-zero"
    ELSE IF Len(e.again) # e.w \/ ~IsZero(e.again) THEN "C18:nomval-not-all-zero-after-a-caller-modified-an-earlier-result"
    ELSE "ok"

JudgeCk(e) ==
    IF e.ck # Fletcher8(e.data) THEN "C18:calc_checksum"
    ELSE IF e.validgood # 1 THEN "C18:isvalid_checksum-rejects-good"
    ELSE IF e.validbad # 0 THEN "C18:isvalid_checksum-accepts-bad"
    ELSE "ok"

JudgeTime(e) ==
    IF e.wno # Utc2Wno(e.days) THEN "C18:utc2itow-week"
    ELSE IF e.itow # Utc2Itow(e.days, e.sod, e.ms) THEN "C18:utc2itow-ms"
    ELSE IF e.tod # Itow2Tod(e.itowin) THEN "C18:itow2utc"
    ELSE IF e.tod2 # <<e.sod \div 3600, (e.sod \div 60) % 60, e.sod % 60, e.ms * 1000>> THEN "C18:itow2utc-not-inverse-of-utc2itow"
    ELSE "ok"

JudgeBits(e) == IF e.out # GetBits(e.bf, e.mask) THEN "C18:get_bits" ELSE "ok"

JudgeProt(e) == IF e.out # ProtBit(Protocol(e.b1, e.b2, NmeaB2)) THEN "C18:protocol" ELSE "ok"

\* grouped attribute names carry one index per nesting level (any depth): e.more = the indices below the second level
JudgeAtt(e) ==
    LET ix == <<e.i>> \o (IF e.j > 0 THEN <<e.j>> \o e.more ELSE <<>>)
        name == e.base \o FoldLeft(LAMBDA acc, x : acc \o Idx2(x), "", ix)
    IN
    IF e.name # name THEN "triv"
    ELSE IF e.outname # e.base THEN "C18:att2name"
    ELSE IF e.j = 0 /\ e.outidx # <<e.i>> THEN "C18:att2idx"
    ELSE IF e.j > 0 /\ e.outidx # ix THEN "C18:att2idx-nested"
    ELSE "ok"

JudgeSpHp(e) == IF SpHp(e.N, e.sp, e.hp) THEN "ok" ELSE "C18:val2sphp"
JudgeSpHp2(e) == IF SpHpTenths(e.M, e.sp, e.hp) THEN "ok" ELSE "C18:val2sphp-pair-does-not-recombine-to-the-value"

(***************************************************************************)
(* Helpers no listed property names (spec growth): verdicts "EXT:..." are  *)
(* reported as notes by the harness, never as violations.                  *)
(***************************************************************************)
JudgeTwos(e) == IF e.out # TwosComp(e.val, e.n) THEN "EXT:val2twoscomp"
                ELSE IF e.outsm # SignMag(e.val, e.n) THEN "EXT:val2signmag" ELSE "ok"
JudgeEsc(e) == IF e.out # EscapeAll(e.b) THEN "EXT:escapeall" ELSE "ok"
JudgeHext(e) == IF e.out # HexTable(e.raw, e.cols) THEN "EXT:hextable" ELSE "ok"
JudgeDop(e) == IF e.out # Dop2Str(e.h) THEN "EXT:dop2str" ELSE "ok"
JudgeLookup(e) == IF e.out # Decode(IF e.which = "gnss" THEN Defs.gnsslist ELSE Defs.fixtype, e.x) THEN "EXT:" \o e.which \o "2str" ELSE "ok"
JudgeKfv(e) == IF e.out # KeyFromVal(e.pairs, e.v) THEN "EXT:key_from_val" ELSE "ok"
JudgeMon(e) ==
    LET r == ProcessMonVer(e.sw, e.hw, e.exts) IN
    IF e.out.swversion # r.sw THEN "EXT:process_monver-swversion"
    ELSE IF e.out.hwversion # r.hw THEN "EXT:process_monver-hwversion"
    ELSE IF e.out.fwversion # r.fw THEN "EXT:process_monver-fwversion"
    ELSE IF e.out.romversion # r.rom THEN "EXT:process_monver-romversion"
    ELSE IF e.out.gnss # r.gnss THEN "EXT:process_monver-gnss"
    ELSE "ok"
\* msgstr2bytes: the first class key carrying that class name, the second byte of the first message key carrying that name
JudgeMsgStr(e) ==
    LET cs == {i \in 1..Len(Defs.classes) : Defs.classes[i].name = e.cls}
        ms == {i \in 1..Len(Defs.msgids) : Defs.msgids[i].name = e.id}
    IN IF cs = {} \/ ms = {} THEN (IF e.out = <<>> THEN "ok" ELSE "EXT:msgstr2bytes-unknown-name-not-refused")
       ELSE LET c == Defs.classes[CHOOSE i \in cs : \A j \in cs : i <= j].key
                m == Defs.msgids[CHOOSE i \in ms : \A j \in ms : i <= j].key
            IN IF e.out # <<c[1], m[2]>> THEN "EXT:msgstr2bytes" ELSE "ok"
JudgeMsgCls(e) == IF e.out # <<e.c, e.i>> THEN "EXT:msgclass2bytes" ELSE "ok"
JudgeAttSiz(e) == IF e.typ # SubSeq(e.t, 1, 1) THEN "EXT:atttyp"
                  ELSE IF e.siz # (IF e.t = "CH" THEN -1 ELSE e.w) THEN "EXT:attsiz" ELSE "ok"

Judge(e) == CASE e.kind = "int" -> JudgeInt(e) [] e.kind = "dec" -> JudgeDec(e) [] e.kind = "opaque" -> JudgeOpaque(e)
              [] e.kind = "nom" -> JudgeNom(e) [] e.kind = "ck" -> JudgeCk(e) [] e.kind = "time" -> JudgeTime(e)
              [] e.kind = "bits" -> JudgeBits(e) [] e.kind = "prot" -> JudgeProt(e) [] e.kind = "att" -> JudgeAtt(e)
              [] e.kind = "sphp" -> JudgeSpHp(e) [] e.kind = "sphp2" -> JudgeSpHp2(e)
              [] e.kind = "twos" -> JudgeTwos(e) [] e.kind = "esc" -> JudgeEsc(e) [] e.kind = "hext" -> JudgeHext(e)
              [] e.kind = "dop" -> JudgeDop(e) [] e.kind = "lookup" -> JudgeLookup(e) [] e.kind = "kfv" -> JudgeKfv(e)
              [] e.kind = "mon" -> JudgeMon(e) [] e.kind = "msgstr" -> JudgeMsgStr(e) [] e.kind = "msgcls" -> JudgeMsgCls(e)
              [] e.kind = "attsiz" -> JudgeAttSiz(e) [] e.kind = "wide" -> JudgeWide(e) [] OTHER -> "unknown-kind"

Init == tid \in 1..Len(Traces) /\ verdict = "pending"
Next == /\ verdict = "pending"
        /\ LET v == Judge(Traces[tid]) IN
             /\ verdict' = v
             /\ (v # "ok" => PrintT("V " \o ToString(tid) \o " " \o v))
        /\ UNCHANGED tid
Spec == Init /\ [][Next]_<<tid, verdict>>
=============================================================================
