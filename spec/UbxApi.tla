------------------------------- MODULE UbxApi -------------------------------
(***************************************************************************)
(* Growth beyond the listed properties: the outcome of the top-level call  *)
(*                                                                         *)
(*     UBXReader.parse(frame, msgmode, validate, parsebitfield)            *)
(*                                                                         *)
(* as ONE function that ties the layers together: the mode gate, the       *)
(* framing decision (UbxFrame), the SETPOLL mode resolution (UbxFrame!     *)
(* InputMode), the selection of the payload definition and the payload     *)
(* walk (UbxWalk).  Each refusal belongs to one exception class:           *)
(*                                                                         *)
(*   UBXParseError    the call itself is wrong (mode) or the bytes are not *)
(*                    a frame (sync, length field, checksum)               *)
(*   UBXMessageError  the frame is fine but the tables hold no definition  *)
(*                    of this class / ID in the (resolved) mode            *)
(*   message          there is no payload (whatever the class / ID / mode), *)
(*                    or the payload conforms to the selected definition,  *)
(*                    or the message is unknown in GET mode (nominal)      *)
(*   "any"            the specification leaves the outcome open: payloads  *)
(*                    that do not conform to their definition (too short,  *)
(*                    too long, undecodable), malformed frames parsed      *)
(*                    leniently, variant selectors the spec does not know  *)
(***************************************************************************)
EXTENDS UbxGrammar, UbxFrame

ResolvedMode(f, mode) == IF mode = 3 THEN (IF InputMode(f, PollWithSelector) = "POLL" THEN 2 ELSE 1) ELSE mode

ParseOutcome(f, mode, validate, pbf) ==
    IF mode \notin 0..3 THEN "UBXParseError"
    ELSE IF validate % 2 = 1 /\ ~WellFormed(f) THEN "UBXParseError"
    ELSE IF ~WellFormed(f) THEN "any"
    ELSE LET x  == Fields(f)
             m  == ResolvedMode(f, mode)
             dn == SelectDefName(m, x.cls, x.id, x.payload)
         IN IF Len(x.payload) = 0 THEN "message"        \* (no payload, no definition needed: any class / ID in any mode)
            ELSE IF dn = "uncovered" THEN "any"
            ELSE IF dn = "" THEN "UBXMessageError"
            ELSE IF dn = "NOMINAL" THEN "message"
            ELSE IF GrammarVerdict(Table(m)[dn]) # "ok" THEN "any"   \* (definitions that break the grammar: known findings of C16)
            ELSE LET r == Parse(m, x.cls, x.id, pbf, x.payload)
                 IN IF r.err = "" /\ Conforms(r, x.payload) THEN "message" ELSE "any"
=============================================================================
