----------------------------- MODULE UbxHelpers ----------------------------
(***************************************************************************)
(* L0: scalar codecs on limb sequences and the integer-domain laws of the  *)
(* helper functions (ubxhelpers.py).                                       *)
(* Integers wider than 31 bits are given as sign + magnitude limbs.        *)
(***************************************************************************)
EXTENDS UbxBytes

\* strip high-order zero limbs
RECURSIVE Strip(_)
Strip(s) == IF Len(s) > 0 /\ s[Len(s)] = 0 THEN Strip(SubSeq(s, 1, Len(s) - 1)) ELSE s

Pad(s, w) == s \o [i \in 1..(w - Len(s)) |-> 0]

\* two's complement negation of a w-limb little-endian number (invert, add one)
RECURSIVE AddOne(_, _)
AddOne(s, i) == IF i > Len(s) THEN s
                ELSE IF s[i] = 255 THEN AddOne([s EXCEPT ![i] = 0], i + 1)
                ELSE [s EXCEPT ![i] = s[i] + 1]
Negate(s) == AddOne([i \in 1..Len(s) |-> 255 - s[i]], 1)

\* is the value (neg, mag) representable in w bytes, unsigned / signed
FitsUnsigned(neg, mag, w) == (~neg \/ Strip(mag) = <<>>) /\ Len(Strip(mag)) <= w
FitsSigned(neg, mag, w) ==
    LET m == Strip(mag) IN
    /\ Len(m) <= w
    /\ (Len(m) = w => IF neg THEN (m[w] < 128 \/ (m[w] = 128 /\ \A i \in 1..(w - 1) : m[i] = 0)) ELSE m[w] < 128)

\* the encoding of an in-range integer
EncodeInt(neg, mag, w, signed) ==
    LET m == Pad(Strip(mag), w) IN
    IF neg /\ Strip(mag) # <<>> THEN Negate(m) ELSE m

\* decoding: sign and magnitude of w limbs
DecodeNeg(b, signed) == signed /\ Len(b) > 0 /\ b[Len(b)] >= 128
DecodeMag(b, signed) == IF DecodeNeg(b, signed) THEN Strip(Negate(b)) ELSE Strip(b)

(***************************************************************************)
(* Time of week (all quantities < 2^31): days since the GPS epoch, second  *)
(* of day, millisecond; leap offset 18 s.                                  *)
(***************************************************************************)
LeapOffset == 18
Utc2Wno(days) == days \div 7
Utc2Itow(days, sod, ms) == (((days % 7) * 86400) + sod + LeapOffset) * 1000 + ms
\* time of day <<h, m, s, microseconds>> of a time-of-week in ms
Itow2Tod(itow) ==
    LET s == (((((itow \div 1000) - LeapOffset) % 86400) + 86400) % 86400)
    IN <<s \div 3600, (s \div 60) % 60, s % 60, (itow % 1000) * 1000>>

(***************************************************************************)
(* get_bits in the big-endian reading the library documents and the test   *)
(* suite fixes: value = int(bitfield.hex(), 16); shift right by the number *)
(* of trailing zero bits of the mask; AND with the shifted mask.           *)
(***************************************************************************)
BEValue(b) == FoldLeft(LAMBDA acc, x : acc * 256 + x, 0, b)
RECURSIVE TrailingZeros(_)
TrailingZeros(m) == IF m % 2 = 1 THEN 0 ELSE 1 + TrailingZeros(m \div 2)
GetBits(b, mask) == LET z == TrailingZeros(mask) IN (BEValue(b) \div (2 ^ z)) & (mask \div (2 ^ z))

(***************************************************************************)
(* val2sphp as a relation: for val = N * scale / 100 (N an integer):       *)
(* 100 * sp + hp = N and |hp| < 100, sp and hp of the sign of N            *)
(***************************************************************************)
SpHp(N, sp, hp) == 100 * sp + hp = N /\ hp > -100 /\ hp < 100 /\ (N >= 0 => sp >= 0 /\ hp >= 0) /\ (N <= 0 => sp <= 0 /\ hp <= 0)

(***************************************************************************)
(* Growth beyond the listed properties (DESIGN 3.12): the remaining public *)
(* helpers of ubxhelpers.py.  Divergences from these are reported as NOTES *)
(* ("EXT:" verdicts), never as violations: no listed property names them.  *)
(***************************************************************************)
Abs(x) == IF x < 0 THEN -x ELSE x

\* val2twoscomp / val2signmag: n is the number the type string carries (used as a BIT count by these two helpers)
TwosComp(val, n) == ((val % (2 ^ n)) + (2 ^ n)) % (2 ^ n)
SignMag(val, n) == (Abs(val) % (2 ^ n)) + (IF val < 0 THEN 2 ^ n ELSE 0)

\* escapeall: b'\x01\x02...'
RECURSIVE EscBytes(_)
EscBytes(b) == IF b = <<>> THEN "" ELSE "\\x" \o Hex2(Head(b)) \o EscBytes(Tail(b))
EscapeAll(b) == "b'" \o EscBytes(b) \o "'"

\* Python's repr() of a bytes object
Printable == " !\"#$%&'()*+,-./0123456789:;<=>?@ABCDEFGHIJKLMNOPQRSTUVWXYZ[\\]^_`abcdefghijklmnopqrstuvwxyz{|}~"
PyByteChar(c, quote) ==
    CASE c = 9 -> "\\t" [] c = 10 -> "\\n" [] c = 13 -> "\\r" [] c = 92 -> "\\\\"
      [] c = quote -> "\\" \o SubSeq(Printable, c - 31, c - 31)
      [] c >= 32 /\ c <= 126 -> SubSeq(Printable, c - 31, c - 31)
      [] OTHER -> "\\x" \o Hex2(c)
\* (folded iteratively: payloads can be tens of thousands of bytes long)
PyBytesBody(b, quote) == FoldLeft(LAMBDA acc, x : acc \o PyByteChar(x, quote), "", b)
PyBytesRepr(b) ==
    LET hasS == \E i \in 1..Len(b) : b[i] = 39
        hasD == \E i \in 1..Len(b) : b[i] = 34
    IN IF hasS /\ ~hasD THEN "b\"" \o PyBytesBody(b, 34) \o "\""
       ELSE "b'" \o PyBytesBody(b, 39) \o "'"

\* repr(msg): "UBXMessage(b'\\x05', b'\\x01', 0)" / "UBXMessage(b'\\x05', b'\\x01', 0, payload=b'...')" - the text eval() turns back into the message
MsgRepr(cls, id, mode, P) ==
    "UBXMessage(" \o PyBytesRepr(<<cls>>) \o ", " \o PyBytesRepr(<<id>>) \o ", " \o ToString(mode)
        \o (IF P = <<>> THEN "" ELSE ", payload=" \o PyBytesRepr(P)) \o ")"

\* hextable(raw, cols): rows of 2*cols bytes: "OOO: hhhh hhhh ...  | b'..' |\n"
Dec3(n) == IF n < 10 THEN "00" \o ToString(n) ELSE IF n < 100 THEN "0" \o ToString(n) ELSE ToString(n)
RECURSIVE HexOf(_), Spaces(_), Groups(_, _)
HexOf(b) == IF b = <<>> THEN "" ELSE Hex2(Head(b)) \o HexOf(Tail(b))
Spaces(n) == IF n <= 0 THEN "" ELSE " " \o Spaces(n - 1)
Groups(h, k) == IF k = 0 THEN "" ELSE SubSeq(h, 1, 4) \o " " \o Groups(SubSeq(h, 5, Len(h)), k - 1)
RECURSIVE HexRows(_, _, _)
HexRows(raw, off, cols) ==
    IF off >= Len(raw) THEN ""
    ELSE LET chunk == Slice(raw, off, off + 2 * cols)
             h == HexOf(chunk) \o Spaces(4 * cols - 2 * Len(chunk))
         IN Dec3(off) \o ": " \o Groups(h, cols) \o " | " \o PyBytesRepr(chunk) \o " |\n" \o HexRows(raw, off + 2 * cols, cols)
HexTable(raw, cols) == HexRows(raw, 0, cols)

\* dop2str on hundredths (dop = h / 100)
Dop2Str(h) == IF h = 100 THEN "Ideal" ELSE IF h <= 200 THEN "Excellent" ELSE IF h <= 500 THEN "Good"
              ELSE IF h <= 1000 THEN "Moderate" ELSE IF h <= 2000 THEN "Fair" ELSE "Poor"

\* table decode with str(int) fallback (gnss2str, gpsfix2str); tbl = sequence of [k, v]
Decode(tbl, x) == LET s == {i \in 1..Len(tbl) : tbl[i].k = x}
                  IN IF s = {} THEN ToString(x) ELSE tbl[CHOOSE i \in s : TRUE].v

\* key_from_val: the FIRST key (insertion order) whose value matches; "" = KeyError
KeyFromVal(pairs, v) == LET s == {i \in 1..Len(pairs) : pairs[i].v = v}
                        IN IF s = {} THEN "" ELSE pairs[CHOOSE i \in s : \A j \in s : i <= j].k

\* substring search / replace-all (left to right, non-overlapping) as Python's str.replace does (pattern non-empty)
StartsAt(s, i, p) == i + Len(p) - 1 <= Len(s) /\ SubSeq(s, i, i + Len(p) - 1) = p
HasSub(s, p) == \E i \in 1..Len(s) : StartsAt(s, i, p)
RECURSIVE ReplaceFrom(_, _, _, _)
ReplaceFrom(s, i, p, r) ==
    IF i > Len(s) THEN ""
    ELSE IF StartsAt(s, i, p) THEN r \o ReplaceFrom(s, i + Len(p), p, r)
    ELSE SubSeq(s, i, i) \o ReplaceFrom(s, i + 1, p, r)
Replace(s, p, r) == ReplaceFrom(s, 1, p, r)

(***************************************************************************)
(* process_monver: sw/hw version strings and up to 9 extension strings     *)
(* (NULs already stripped, ASCII) -> version dictionary.                   *)
(***************************************************************************)
GnssTags == <<"GPS", "GLO", "GAL", "BDS", "SBAS", "IMES", "QZSS", "NAVIC">>
RECURSIVE MonVerFold(_, _, _)
MonVerFold(exts, i, acc) ==
    IF i > Len(exts) THEN acc
    ELSE LET e == exts[i]
             a1 == IF HasSub(e, "FWVER=") THEN [acc EXCEPT !.fw = Replace(e, "FWVER=", "")] ELSE acc
             a2 == IF HasSub(e, "PROTVER=") THEN [a1 EXCEPT !.rom = Replace(e, "PROTVER=", "")] ELSE a1
             a3 == IF HasSub(e, "PROTVER ") THEN [a2 EXCEPT !.rom = Replace(e, "PROTVER ", "")] ELSE a2
             a4 == IF HasSub(e, "MOD=") THEN [a3 EXCEPT !.hw = Replace(e, "MOD=", "") \o " " \o a3.hw] ELSE a3
             g  == FoldLeft(LAMBDA acc2, t : IF HasSub(e, t) THEN acc2 \o t \o " " ELSE acc2, a4.gnss, GnssTags)
         IN MonVerFold(exts, i + 1, [a4 EXCEPT !.gnss = g])
ProcessMonVer(sw, hw, exts) ==
    MonVerFold(exts, 1, [sw |-> Replace(Replace(sw, "ROM CORE", "ROM"), "EXT CORE", "Flash"),
                         hw |-> hw, fw |-> "N/A", rom |-> "N/A", gnss |-> ""])

\* the same for a value given in TENTHS of a high-precision unit (M, last digit not 5): the pair recombines to the nearest unit and
\* the high-precision part stays within -100..100 (the library rounds the residual, so +-100 can occur at a carry)
RoundTenths(M) == IF M >= 0 THEN (M + 5) \div 10 ELSE -((5 - M) \div 10)
SpHpTenths(M, sp, hp) == 100 * sp + hp = RoundTenths(M) /\ hp >= -100 /\ hp <= 100 /\ (M >= 0 => sp >= 0 /\ hp >= 0) /\ (M <= 0 => sp <= 0 /\ hp <= 0)

\* grouped attribute names: base + _ii (+ _jj)
Idx2(i) == IF i < 10 THEN "_0" \o ToString(i) ELSE "_" \o ToString(i)
=============================================================================
