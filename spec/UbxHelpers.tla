----------------------------- MODULE UbxHelpers ----------------------------
(***************************************************************************)
(* L0: scalar codecs on limb sequences and the integer-domain laws of the  *)
(* helper functions (ubxhelpers.py).                                       *)
(* Integers wider than 31 bits are given as sign + magnitude limbs.        *)
(***************************************************************************)
EXTENDS UbxBytes

\* strip high-order zero limbs
RECURSIVE Strip(_)
Strip(s) == IF Len(s) > 0 /\ s[Len(s)] = 0 THEN Strip(SubSeq(s, 1, Len(s) - 1)) ELSE s

Pad(s, w) == s \o [i \in 1..(w - Len(s)) |-> 0]

\* two's complement negation of a w-limb little-endian number (invert, add one)
RECURSIVE AddOne(_, _)
AddOne(s, i) == IF i > Len(s) THEN s
                ELSE IF s[i] = 255 THEN AddOne([s EXCEPT ![i] = 0], i + 1)
                ELSE [s EXCEPT ![i] = s[i] + 1]
Negate(s) == AddOne([i \in 1..Len(s) |-> 255 - s[i]], 1)

\* is the value (neg, mag) representable in w bytes, unsigned / signed
FitsUnsigned(neg, mag, w) == (~neg \/ Strip(mag) = <<>>) /\ Len(Strip(mag)) <= w
FitsSigned(neg, mag, w) ==
    LET m == Strip(mag) IN
    /\ Len(m) <= w
    /\ (Len(m) = w => IF neg THEN (m[w] < 128 \/ (m[w] = 128 /\ \A i \in 1..(w - 1) : m[i] = 0)) ELSE m[w] < 128)

\* the encoding of an in-range integer
EncodeInt(neg, mag, w, signed) ==
    LET m == Pad(Strip(mag), w) IN
    IF neg /\ Strip(mag) # <<>> THEN Negate(m) ELSE m

\* decoding: sign and magnitude of w limbs
DecodeNeg(b, signed) == signed /\ Len(b) > 0 /\ b[Len(b)] >= 128
DecodeMag(b, signed) == IF DecodeNeg(b, signed) THEN Strip(Negate(b)) ELSE Strip(b)

(***************************************************************************)
(* Time of week (all quantities < 2^31): days since the GPS epoch, second  *)
(* of day, millisecond; leap offset 18 s.                                  *)
(***************************************************************************)
LeapOffset == 18
Utc2Wno(days) == days \div 7
Utc2Itow(days, sod, ms) == (((days % 7) * 86400) + sod + LeapOffset) * 1000 + ms
\* time of day <<h, m, s, microseconds>> of a time-of-week in ms
Itow2Tod(itow) ==
    LET s == (((((itow \div 1000) - LeapOffset) % 86400) + 86400) % 86400)
    IN <<s \div 3600, (s \div 60) % 60, s % 60, (itow % 1000) * 1000>>

(***************************************************************************)
(* get_bits in the big-endian reading the library documents and the test   *)
(* suite fixes: value = int(bitfield.hex(), 16); shift right by the number *)
(* of trailing zero bits of the mask; AND with the shifted mask.           *)
(***************************************************************************)
BEValue(b) == FoldLeft(LAMBDA acc, x : acc * 256 + x, 0, b)
RECURSIVE TrailingZeros(_)
TrailingZeros(m) == IF m % 2 = 1 THEN 0 ELSE 1 + TrailingZeros(m \div 2)
GetBits(b, mask) == LET z == TrailingZeros(mask) IN (BEValue(b) \div (2 ^ z)) & (mask \div (2 ^ z))

(***************************************************************************)
(* val2sphp as a relation: for val = N * scale / 100 (N an integer):       *)
(* 100 * sp + hp = N and |hp| < 100, sp and hp of the sign of N            *)
(***************************************************************************)
SpHp(N, sp, hp) == 100 * sp + hp = N /\ hp > -100 /\ hp < 100 /\ (N >= 0 => sp >= 0 /\ hp >= 0) /\ (N <= 0 => sp <= 0 /\ hp <= 0)

\* grouped attribute names: base + _ii (+ _jj)
Idx2(i) == IF i < 10 THEN "_0" \o ToString(i) ELSE "_" \o ToString(i)
=============================================================================
