------------------------------ MODULE T_Reader ------------------------------
(***************************************************************************)
(* Trace acceptor for the stream reader (C06 C07 C08 C09 C11 C12).         *)
(*                                                                         *)
(* One trace = one byte stream S together with one or more complete runs   *)
(* of the real UBXReader over it (different configurations / cut points),  *)
(* each logged at the boundary objects: every read()/readline() call on    *)
(* the stream, every item returned, every error-handler call, the end.     *)
(*                                                                         *)
(* Two kinds of judgement:                                                 *)
(*  - property monitors (authoritative): relations the properties state;   *)
(*  - conformance with the machine UbxReader!Step, event by event, with    *)
(*    the parser verdict inferred from the trace.  A divergence there is   *)
(*    reported as "drift" (a NOTE), because the exact garbage handling is  *)
(*    not fixed by any property.                                           *)
(*                                                                         *)
(* Events are tuples <<t, n, got, a, b, fam>> with t in                    *)
(*   "r" read(n)->got bytes   "l" readline()->got bytes                    *)
(*   "i" item returned, raw = S[a+1..b] if the reader does not read ahead  *)
(*   "h" handler called (fam = exception family)   "x" exception raised    *)
(*   "e" end of iteration                                                  *)
(***************************************************************************)
EXTENDS UbxReader, TLC, Json, IOUtils

Traces == JsonDeserialize(IOEnv.TRACE_FILE)
Defs == JsonDeserialize(IOEnv.DEFS_FILE)
NmeaB2 == {Defs.nmea_b2[i] : i \in 1..Len(Defs.nmea_b2)}

VARIABLES tid, verdict

Raw(t, id) == IF id = 0 THEN <<>> ELSE t.raws[id]
ProtOfRaw(raw) == IF Len(raw) < 2 THEN "NONE" ELSE Protocol(raw[1], raw[2], NmeaB2)

(***************************************************************************)
(* C07 monitor                                                             *)
(***************************************************************************)
\* position of raw in S at or after cur: the logged end position is tried first, then leftmost search
Locate(S, raw, cur, endpos) ==
    LET n == Len(raw)
        h == endpos - n
    IN IF h >= cur /\ endpos <= Len(S) /\ SubSeq(S, h + 1, endpos) = raw THEN h
       ELSE LET c == {j \in cur..(Len(S) - n) : S[j + 1] = raw[1] /\ S[j + 2] = raw[2] /\ S[j + n] = raw[n] /\ SubSeq(S, j + 1, j + n) = raw}
            IN IF c = {} THEN -1 ELSE CHOOSE j \in c : \A k \in c : j <= k

\* folded over the item indices (FoldLeft is evaluated iteratively; a recursive operator over thousands of items costs quadratic time)
SliceStep(t, S, r, acc, i) ==
    IF acc.v # "ok" THEN acc
    ELSE IF r.items[i] = 0 THEN [acc EXCEPT !.v = "C07:raw-not-bytes"]
    ELSE LET raw == Raw(t, r.items[i]) IN
         IF Len(raw) < 2 \/ ProtOfRaw(raw) = "NONE" THEN [acc EXCEPT !.v = "C07:item-without-preamble"]
         ELSE LET at == Locate(S, raw, acc.cur, r.endpos[i]) IN
              IF at < 0 THEN [acc EXCEPT !.v = "C07:item-not-an-in-order-slice"]
              ELSE [acc EXCEPT !.cur = at + Len(raw)]
SlicesFrom(t, S, r, i0, cur0) ==
    FoldLeft(LAMBDA acc, i : SliceStep(t, S, r, acc, i), [cur |-> cur0, v |-> "ok"], [i \in 1..Len(r.items) |-> i]).v

StreamOf(t, r) == IF r.cut < 0 THEN t.S ELSE SubSeq(t.S, 1, r.cut)

MonC07run(t, r) ==
    \* (errors not raised: an iteration that an exception stops all the same, with data still unread, has stopped early)
    IF r.quit # 2 /\ r.end \notin {"eof", "hang"} /\ r.left # 0 THEN "C07:iteration-stopped-by-an-exception-with-data-unread"
    \* (a run that raises its errors to a caller who catches them and carries on - resume - is judged like the others once it ENDS:
    \* its items are slices in order, and its end-of-stream report means the stream has no more data)
    ELSE IF r.end # "eof" \/ (r.quit = 2 /\ ~("resume" \in DOMAIN r /\ r.resume = 1)) THEN "triv"
    ELSE LET sl == SlicesFrom(t, StreamOf(t, r), r, 1, 0) IN
         IF sl # "ok" THEN sl
         ELSE IF r.left # 0 THEN "C07:stopped-with-data-unread"
         ELSE "ok"

RECURSIVE FirstBad(_, _, _)
\* first verdict in seq vs that is neither ok nor triv; "ok" if some ok; else "triv"
FirstBad(vs, i, sawok) ==
    IF i > Len(vs) THEN (IF sawok THEN "ok" ELSE "triv")
    ELSE IF vs[i] \notin {"ok", "triv"} THEN vs[i]
    ELSE FirstBad(vs, i + 1, sawok \/ vs[i] = "ok")

MonC07(t) == FirstBad([k \in 1..Len(t.runs) |-> MonC07run(t, t.runs[k])], 1, FALSE)

(***************************************************************************)
(* C08 monitor (reader part): ends; raises only when asked, only protocol  *)
(* errors                                                                  *)
(***************************************************************************)
MonC08run(r) ==
    IF r.end = "hang" THEN "C08:reader-hang"
    ELSE IF r.end = "eof" THEN "ok"
    ELSE IF r.end = "raise" THEN
            (IF r.quit # 2 THEN "C08:raised-under-ignore-or-log"
             ELSE IF r.endfam \notin {"UBX", "NMEA", "RTCM"} THEN "C08:foreign-exception"
             ELSE "ok")
    ELSE "C08:foreign-exception"
MonC08(t) == FirstBad([k \in 1..Len(t.runs) |-> MonC08run(t.runs[k])], 1, FALSE)

(***************************************************************************)
(* C06 monitor: clean streams (recipe given): exactly the frames the       *)
(* protocol parsers accept, in order, typed, parsed as by a direct call    *)
(***************************************************************************)
TypeName(p) == CASE p = "UBX" -> "UBXMessage" [] p = "NMEA" -> "NMEAMessage" [] p = "RTCM" -> "RTCMMessage" [] OTHER -> "?"

MonC06(t) ==
    LET r == t.runs[1]
        S == t.S
        exp == SelectSeq(t.recipe, LAMBDA x : x.p # "NOISE" /\ x.ok = 1)
    IN IF ~(r.filter = 7 /\ r.parsing = 1 /\ r.quit \in {0, 1}) THEN "triv"
       ELSE IF r.end # "eof" THEN "C06:did-not-end-normally"
       ELSE IF Len(r.items) < Len(exp) THEN "C06:frame-missing"
       ELSE IF Len(r.items) > Len(exp) THEN "C06:extra-item"
       ELSE LET bad == {i \in 1..Len(exp) :
                          \/ Raw(t, r.items[i]) # SubSeq(S, exp[i].a + 1, exp[i].b)
                          \/ (r.pt[i] # TypeName(exp[i].p) /\ exp[i].dd # "None")
                          \/ r.pd[i] # exp[i].dd}
            IN IF bad # {} THEN
                  LET i == CHOOSE i \in bad : \A j \in bad : i <= j IN
                  IF Raw(t, r.items[i]) # SubSeq(S, exp[i].a + 1, exp[i].b) THEN "C06:wrong-raw-bytes"
                  ELSE IF r.pt[i] # TypeName(exp[i].p) /\ exp[i].dd # "None" THEN "C06:wrong-parsed-type"
                  ELSE "C06:parsed-differs-from-direct-parse"
               ELSE IF r.left # 0 THEN "C06:stopped-early"
               \* a second run raises its errors to a caller who catches them and carries on with the same iterator: a rejected
               \* frame still does not disturb the frames after it - the same items come out
               ELSE IF Len(t.runs) >= 2 /\ t.runs[2].quit = 2 /\ t.runs[2].end \notin {"hang"}
                       /\ (t.runs[2].end # "eof" \/ t.runs[2].items # r.items \/ t.runs[2].left # 0)
                    THEN "C06:frames-after-a-raised-and-caught-error-not-delivered"
               ELSE IF Len(exp) = 0 THEN "triv"
               ELSE "ok"

(***************************************************************************)
(* C09 monitor: runs[1] is the uncut run, the others are cut runs          *)
(***************************************************************************)
IsPrefixIds(a, b) == Len(a) <= Len(b) /\ \A i \in 1..Len(a) : a[i] = b[i]

MonC09cut(t, full, c) ==
    IF c.end # "eof" THEN "C09:cut-run-did-not-end-normally"
    ELSE IF ~IsPrefixIds(c.items, full.items) THEN "C09:not-a-prefix"
    ELSE IF \E i \in 1..Len(c.items) : c.endpos[i] > c.cut THEN "C09:item-beyond-cut"
    ELSE IF Len(t.recipe) > 0 /\
            Cardinality({i \in 1..Len(t.recipe) : t.recipe[i].p # "NOISE" /\ t.recipe[i].ok = 1 /\ t.recipe[i].b <= c.cut
                                                   /\ InMask(c.filter, t.recipe[i].p)})
               > Len(c.items) THEN "C09:complete-frame-before-cut-not-delivered"
    ELSE "ok"

MonC09(t) ==
    LET full == t.runs[1] IN
    \* (the uncut run is the cut k = Len(S): it, too, "ends without raising" when errors are ignored or logged)
    IF full.end \notin {"eof", "hang"} /\ full.quit # 2 THEN "C09:uncut-run-did-not-end-normally:" \o full.end
    ELSE IF full.end # "eof" THEN "triv"
    ELSE FirstBad([k \in 1..(Len(t.runs) - 1) |-> MonC09cut(t, full, t.runs[k + 1])], 1, FALSE)

(***************************************************************************)
(* C11 monitor: runs[1] has all protocols enabled and parsing on           *)
(***************************************************************************)
MonC11run(t, base, r) ==
    IF base.end # "eof" THEN "triv"
    ELSE IF r.end # "eof" THEN (IF r.quit = 2 THEN "triv" ELSE "C11:run-with-this-mask-did-not-end-normally:" \o r.end)
    ELSE IF r.parsing = 1 THEN
        LET keep == SelectSeq(base.items, LAMBDA id : InMask(r.filter, ProtOfRaw(Raw(t, id))))
        IN IF r.items # keep THEN "C11:mask-changed-framing"
           ELSE IF r.filter = 7 THEN "triv" ELSE "ok"
    ELSE \* parsing = False: only claimed over streams whose frames are all accepted, all protocols enabled
        IF ~(t.allok = 1 /\ r.filter = 7) THEN "triv"
        ELSE IF r.items # base.items THEN "C11:parsing-flag-changed-framing"
        ELSE IF \E i \in 1..Len(r.pt) : r.pt[i] # "None" THEN "C11:parsed-not-None"
        ELSE "ok"

MonC11(t) ==
    LET base == t.runs[1] IN
    IF ~(base.filter = 7 /\ base.parsing = 1) THEN "triv"
    ELSE FirstBad([k \in 1..(Len(t.runs) - 1) |-> MonC11run(t, base, t.runs[k + 1])], 1, FALSE)

(***************************************************************************)
(* C12 monitor: runs = <<IGNORE, LOG+handler, RAISE, LOG without handler>> *)
(***************************************************************************)
OnlyIH(evs) == SelectSeq(evs, LAMBDA e : e[1] \in {"i", "h"})
RECURSIVE ItemsBeforeFirstH(_, _, _)
ItemsBeforeFirstH(evs, i, n) ==
    IF i > Len(evs) THEN n
    ELSE IF evs[i][1] = "h" THEN n
    ELSE ItemsBeforeFirstH(evs, i + 1, IF evs[i][1] = "i" THEN n + 1 ELSE n)

\* over the logged events of the ERR_LOG run: a handler call concerns bytes the reader has consumed and rejected - no item delivered later
\* may start before that point ("never for a delivered frame"), and two calls cannot refer to the same point ("exactly once")
HandlerStep(acc, e) ==
    IF acc.v # "ok" THEN acc
    ELSE IF e[1] = "h" THEN (IF e[5] = acc.lasth /\ acc.lasth >= 0 THEN [acc EXCEPT !.v = "C12:handler-invoked-twice-for-one-rejected-frame"]
                             ELSE [acc EXCEPT !.lasth = e[5]])
    ELSE IF e[1] = "i" /\ e[4] < acc.lasth THEN [acc EXCEPT !.v = "C12:handler-invoked-for-a-frame-that-was-delivered"]
    ELSE acc
HandlerOrder(evs) == FoldLeft(HandlerStep, [lasth |-> -1, v |-> "ok"], evs).v

MonC12(t) ==
    LET ig == t.runs[1]
        lg == t.runs[2]
        rs == t.runs[3]
        nh == t.runs[4]
        nerr == Len(lg.errfams)
    IN IF ig.end = "hang" \/ lg.end = "hang" THEN "triv"
       ELSE IF ig.end # "eof" \/ lg.end # "eof" THEN "C12:rejected-frame-escaped-as-exception-under-ignore-or-log"
       ELSE IF ig.items # lg.items THEN "C12:ignore-and-log-deliver-different-items"
       ELSE IF nh.end = "eof" /\ nh.items # lg.items THEN "C12:handler-presence-changes-items"
       ELSE IF Len(ig.errfams) # 0 THEN "C12:handler-called-under-ignore"
       ELSE IF \E i \in 1..nerr : lg.errfams[i] \notin {"UBX", "NMEA", "RTCM"} THEN "C12:handler-got-foreign-exception"
       ELSE IF HandlerOrder(lg.events) # "ok" THEN HandlerOrder(lg.events)
       ELSE IF Len(t.recipe) > 0 /\
               LET rej == SelectSeq(t.recipe, LAMBDA x : x.p # "NOISE" /\ x.ok = 0)
               IN nerr # Len(rej) \/ \E i \in 1..Len(rej) : i <= nerr /\ lg.errfams[i] # rej[i].fam
            THEN "C12:handler-calls-do-not-match-rejected-frames"
       ELSE IF nerr = 0 THEN
            (IF rs.end # "eof" THEN "C12:raise-without-rejection"
             ELSE IF rs.items # lg.items THEN "C12:raise-run-delivers-different-items"
             ELSE "ok")
       ELSE LET n == ItemsBeforeFirstH(lg.events, 1, 0) IN
            IF rs.end # "raise" THEN "C12:rejection-not-raised"
            ELSE IF rs.items # SubSeq(lg.items, 1, n) THEN "C12:items-before-first-rejection-differ"
            ELSE IF t.same_exc # 1 THEN "C12:raised-exception-differs-from-logged"
            ELSE "ok"

(***************************************************************************)
(* Conformance with the machine (drift notes)                              *)
(***************************************************************************)
FamOf(k, p) == IF k = "parse" THEN p ELSE "UBX"

EvMatch(m, e, prot) ==
    CASE m.t = "read"     -> e[1] = "r" /\ e[2] = m.n /\ e[3] = m.got
      [] m.t = "readline" -> e[1] = "l" /\ e[3] = m.got
      [] m.t = "item"     -> e[1] = "i" /\ e[4] = m.a /\ e[5] = m.b
      [] m.t = "handler"  -> e[1] = "h" /\ e[6] = FamOf(m.k, prot)
      [] m.t = "raise"    -> e[1] = "x" /\ e[6] = FamOf(m.k, prot)
      [] m.t = "eof"      -> e[1] = "e"
      [] OTHER -> FALSE

RECURSIVE Conf(_, _, _, _, _, _)
Conf(s, S, C, evs, l, fuel) ==
    IF Terminal(s) THEN (IF l = Len(evs) + 1 THEN "conf" ELSE "drift:trailing-events-at-" \o ToString(l))
    ELSE IF fuel = 0 THEN "drift:out-of-fuel"
    ELSE LET acc == l <= Len(evs) /\ evs[l][1] = "i" /\ evs[l][5] = s.pos /\ evs[l][4] = s.start
             st  == Step(s, S, C, acc)
         IN IF st.ev.t = "tau" THEN Conf(st.s, S, C, evs, l, fuel - 1)
            ELSE IF l > Len(evs) THEN "drift:machine-expects-" \o st.ev.t \o "-after-end-of-trace"
            ELSE IF EvMatch(st.ev, evs[l], s.prot)
                 THEN Conf(st.s, S, C, evs, l + 1, fuel - 1)
            ELSE "drift:event-" \o ToString(l) \o "-machine-" \o st.ev.t \o "-in-pc-" \o s.pc

ConfRun(t, r) ==
    LET S == StreamOf(t, r)
        C == [filter |-> r.filter, quit |-> r.quit, parsing |-> (r.parsing = 1), zeroEof |-> FALSE, nmeaB2 |-> NmeaB2, sock |-> FALSE]
    IN Conf(InitState, S, C, r.events, 1, 8 * Len(S) + 32)

\* first drifting run (only runs that logged their reads take part), "conf" if none
RECURSIVE Drift(_, _)
Drift(t, k) ==
    IF k > Len(t.runs) THEN "conf"
    ELSE IF t.runs[k].reads = 1 /\ t.runs[k].end \in {"eof", "raise"}
         THEN LET c == ConfRun(t, t.runs[k]) IN IF c = "conf" THEN Drift(t, k + 1) ELSE "run-" \o ToString(k) \o "-" \o c
         ELSE Drift(t, k + 1)

(***************************************************************************)
(* Beyond the listed properties (notes): the third-party parsers' verdicts *)
(* are consistent with the interpreted framing rules (Fletcher-8, CRC-24Q, *)
(* NMEA XOR checksum), and with checksum validation on every item the      *)
(* reader delivers parsed satisfies them - on arbitrary streams too.       *)
(***************************************************************************)
EnvNote(t) ==
    LET r == t.runs[1]
        bad == {i \in 1..Len(t.recipe) : t.recipe[i].p # "NOISE" /\ t.recipe[i].ok = 1 /\ t.recipe[i].dd # "None" /\ r.validate = 1
                                          /\ ~Interpreted(SubSeq(t.S, t.recipe[i].a + 1, t.recipe[i].b), t.recipe[i].p)}
    IN IF bad = {} THEN "" ELSE "EXT:parser-accepted-frame-failing-its-checksum-rule:" \o t.recipe[CHOOSE i \in bad : TRUE].p
ItemNote(t) ==
    LET bad == {k \in 1..Len(t.runs) : t.runs[k].validate = 1 /\ t.runs[k].parsing = 1 /\
                    \E i \in 1..Min2(Len(t.runs[k].items), Len(t.runs[k].pt)) :
                        t.runs[k].items[i] \in 1..Len(t.raws) /\ t.runs[k].pt[i] # "None" /\
                        ~Interpreted(Raw(t, t.runs[k].items[i]), ProtOfRaw(Raw(t, t.runs[k].items[i])))}
    IN IF bad = {} THEN "" ELSE "EXT:reader-delivered-parsed-item-failing-its-checksum-rule"

(***************************************************************************)
(* Growth beyond the listed properties: the logging channel.  Under        *)
(* ERR_LOG without an error handler every rejected frame produces exactly  *)
(* one ERROR record (carrying the exception the handler would have got);   *)
(* in every other configuration the library logs nothing.                  *)
(***************************************************************************)
LogNote(t) ==
    IF t.prop # "C12" \/ Len(t.runs) < 4 \/ \E k \in 1..4 : ~("logs" \in DOMAIN t.runs[k]) \/ t.runs[k].end = "hang" THEN ""
    ELSE LET lg == t.runs[2]
             nh == t.runs[4]
         IN IF \E k \in 1..3 : t.runs[k].logs # <<>> THEN "EXT:log-record-emitted-although-a-handler-was-given-or-mode-is-not-ERR_LOG"
            ELSE IF nh.end # "eof" \/ lg.end # "eof" THEN ""
            ELSE IF Len(nh.logs) # Len(lg.errfams) THEN "EXT:log-records-do-not-match-rejected-frames"
            ELSE IF \E i \in 1..Len(nh.logs) : nh.logs[i][1] # "ERROR" \/ nh.logs[i][2] # lg.errfams[i] THEN "EXT:log-record-level-or-exception-differs"
            ELSE ""

Judge(t) == CASE t.prop = "C06" -> MonC06(t)
              [] t.prop = "C07" -> MonC07(t)
              [] t.prop = "C08" -> MonC08(t)
              [] t.prop = "C09" -> MonC09(t)
              [] t.prop = "C11" -> MonC11(t)
              [] t.prop = "C12" -> MonC12(t)
              [] OTHER -> "unknown-prop"

Init == tid \in 1..Len(Traces) /\ verdict = "pending"
Next == /\ verdict = "pending"
        /\ LET t == Traces[tid]
               v == Judge(t)
               d == IF t.conf = 1 THEN Drift(t, 1) ELSE "conf"
               x1 == IF Len(t.recipe) > 0 THEN EnvNote(t) ELSE ""
               x2 == ItemNote(t)
               x3 == LogNote(t)
           IN /\ verdict' = v
              /\ (x3 # "" => PrintT("E " \o ToString(tid) \o " " \o x3))
              /\ (x1 # "" => PrintT("E " \o ToString(tid) \o " " \o x1))
              /\ (x2 # "" => PrintT("E " \o ToString(tid) \o " " \o x2))
              /\ (v # "ok" => PrintT("V " \o ToString(tid) \o " " \o v))
              /\ (d # "conf" => PrintT("D " \o ToString(tid) \o " " \o d))
        /\ UNCHANGED tid
Spec == Init /\ [][Next]_<<tid, verdict>>
=============================================================================
