------------------------------ MODULE UbxBuild -----------------------------
(***************************************************************************)
(* L2, build direction: what payload a message constructed from keyword    *)
(* attributes must have (README: supplied attributes are encoded at their  *)
(* field, every omitted attribute is zero / blank, counted groups are      *)
(* sized by their count attribute, variable-by-size groups get no repeat). *)
(*                                                                         *)
(* Keyword values are abstract: kw is a sequence of <<name, k, v>> with    *)
(*   k = "f"  v = the bytes the value denotes for a field                  *)
(*   k = "x"  v = the bits (LSB first) the value denotes for a bit flag    *)
(*   k = "bad" the value has no representation (used by C15 only)          *)
(***************************************************************************)
EXTENDS UbxWalk

KwIdx(kw, name) == {i \in 1..Len(kw) : kw[i][1] = name}
KwHas(kw, name) == KwIdx(kw, name) # {}
KwGet(kw, name) == kw[CHOOSE i \in KwIdx(kw, name) : \A j \in KwIdx(kw, name) : i >= j]
KwByte(kw, name) == \* first byte of a supplied field value, -1 when absent / not a field
    IF KwHas(kw, name) /\ KwGet(kw, name)[2] = "f" /\ Len(KwGet(kw, name)[3]) >= 1 THEN KwGet(kw, name)[3][1] ELSE -1

Zeros(n) == [i \in 1..n |-> 0]

\* bits (LSB first, length multiple of 8) to bytes
BytesOfBits(bits) == [j \in 1..(Len(bits) \div 8) |->
                         FoldLeft(LAMBDA acc, b : acc + bits[8 * (j - 1) + b + 1] * (2 ^ b), 0, <<0, 1, 2, 3, 4, 5, 6, 7>>)]

(***************************************************************************)
(* Which table entry a keyword construction selects (transcription of the  *)
(* keyword branch of ubxvariants.py).  "" = not constructible from         *)
(* keywords (the library demands a payload or a discriminator keyword).    *)
(***************************************************************************)
BuildVariantName(m, cls, id, kw) ==
    LET k == <<cls, id>> IN
    CASE m = POLL /\ k = <<6, 49>>  -> IF KwHas(kw, "tpIdx") THEN "CFG-TP5-TPX" ELSE "CFG-TP5"
      [] cls = 19 /\ k \in KnownVariantKeys(m) ->
            IF KwByte(kw, "type") >= 0 THEN Identity(cls, id, <<KwByte(kw, "type")>>) ELSE ""
      [] k = <<2, 114>>             -> IF KwByte(kw, "version") < 0 THEN "" ELSE IF KwByte(kw, "version") = 0 THEN "RXM-PMP-V0" ELSE "RXM-PMP-V1"
      [] m = SET /\ k = <<2, 65>>   -> IF KwHas(kw, "version") THEN "RXM-PMREQ" ELSE ""
      [] m = SET /\ k = <<13, 21>>  -> IF KwByte(kw, "type") < 0 THEN "" ELSE IF KwByte(kw, "type") = 0 THEN "TIM-VCOCAL-V0" ELSE "TIM-VCOCAL"
      [] m = SET /\ k = <<6, 6>>    -> IF KwHas(kw, "datumNum") THEN "CFG-DAT-NUM" ELSE "CFG-DAT"
      [] m = GET /\ k = <<11, 50>>  -> IF KwByte(kw, "type") < 0 THEN "" ELSE IF KwByte(kw, "type") = 255 THEN "AID-ALPSRV-SEND" ELSE "AID-ALPSRV-REQ"
      [] m = GET /\ k = <<2, 89>>   -> IF KwByte(kw, "type") < 0 THEN "" ELSE IF KwByte(kw, "type") = 1 THEN "RXM-RLM-S" ELSE "RXM-RLM-L"
      [] m = GET /\ k = <<1, 60>>   -> IF KwByte(kw, "version") < 0 THEN "" ELSE IF KwByte(kw, "version") = 0 THEN "NAV-RELPOSNED-V0" ELSE "NAV-RELPOSNED"
      [] m = GET /\ k = <<39, 9>>   -> IF KwByte(kw, "version") < 0 THEN "" ELSE IF KwByte(kw, "version") = 1 THEN "SEC-SIG-V1" ELSE "SEC-SIG-V2"
      [] OTHER -> ""      \* CFG-NMEA, NAV-AOPSTATUS: payload only

BuildSelect(m, cls, id, kw) ==
    LET k == <<cls, id>> IN
    IF k \in VariantKeys(m) THEN
        (IF k \in KnownVariantKeys(m)
         THEN LET n == BuildVariantName(m, cls, id, kw) IN IF n # "" /\ HasDef(m, n) THEN n ELSE ""
         ELSE "uncovered")
    ELSE LET n == Identity(cls, id, <<>>) IN
         IF m = GET /\ IsNominal(n) THEN "NOMINAL"
         ELSE IF HasDef(m, n) THEN n ELSE ""

(***************************************************************************)
(* The build walk.  State: pl (payload so far), vals (every attribute as   *)
(* built, nominal ones included: used for group counts), segs (which       *)
(* bytes belong to which attribute), err.                                  *)
(***************************************************************************)
RECURSIVE BuildSeq(_, _, _, _, _), BuildGroup(_, _, _, _, _, _), BuildFlags(_, _, _, _, _)

\* bits and vals of the flags of one bitfield
BuildFlags(flags, i, sfx, kw, acc) ==
    IF i > Len(flags) \/ acc.err # "" THEN acc
    ELSE LET f == flags[i]
             name == f.n \o sfx
             \* reserved bits are no attributes: they take no keyword - in particular not the value meant for a FIELD of the same
             \* name (CFG-SMGR declares a field and a reserved flag both called reserved1)
             has == KwHas(kw, name) /\ ~IsReservedName(f.n)
             v == IF has THEN KwGet(kw, name) ELSE <<name, "x", Zeros(f.s)>>
         IN IF v[2] # "x" \/ Len(v[3]) # f.s THEN [acc EXCEPT !.err = "unrepresentable-flag-value-" \o name]
            ELSE BuildFlags(flags, i + 1, sfx, kw,
                            [acc EXCEPT !.bits = acc.bits \o v[3],
                                        !.vals = Append(acc.vals, [n |-> name, k |-> "x", v |-> v[3], h |-> <<>>])])

BuildEntry(e, sfx, st, E) ==
    IF st.err # "" THEN st
    ELSE CASE e.k = "f" ->
            LET name == e.n \o sfx
                has == KwHas(E.kw, name)
                v == IF has THEN KwGet(E.kw, name) ELSE <<name, "f", IF e.t = "CH" THEN <<>> ELSE Zeros(e.s)>>
            IN IF v[2] # "f" \/ (e.t # "CH" /\ Len(v[3]) # e.s) THEN [st EXCEPT !.err = "unrepresentable-value-" \o name]
               ELSE [st EXCEPT !.pl = st.pl \o v[3],
                               !.vals = Append(st.vals, [n |-> name, k |-> "f", v |-> v[3], h |-> <<>>]),
                               !.segs = Append(st.segs, [n |-> name, a |-> Len(st.pl), b |-> Len(st.pl) + Len(v[3])])]
          [] e.k = "b" ->
            IF E.pbf THEN
                LET r == BuildFlags(e.sub, 1, sfx, E.kw, [bits |-> <<>>, vals |-> st.vals, err |-> ""])
                    padded == IF Len(r.bits) <= 8 * e.s THEN r.bits \o Zeros(8 * e.s - Len(r.bits)) ELSE SubSeq(r.bits, 1, 8 * e.s)
                IN IF r.err # "" THEN [st EXCEPT !.err = r.err]
                   ELSE [st EXCEPT !.pl = st.pl \o BytesOfBits(padded), !.vals = r.vals,
                                   !.segs = Append(st.segs, [n |-> e.n \o sfx, a |-> Len(st.pl), b |-> Len(st.pl) + e.s])]
            ELSE
                LET name == e.n \o sfx
                    has == KwHas(E.kw, name)
                    v == IF has THEN KwGet(E.kw, name) ELSE <<name, "f", Zeros(e.s)>>
                IN IF v[2] # "f" \/ Len(v[3]) # e.s THEN [st EXCEPT !.err = "unrepresentable-value-" \o name]
                   ELSE [st EXCEPT !.pl = st.pl \o v[3],
                                   !.vals = Append(st.vals, [n |-> name, k |-> "f", v |-> v[3], h |-> <<>>]),
                                   !.segs = Append(st.segs, [n |-> name, a |-> Len(st.pl), b |-> Len(st.pl) + e.s])]
          [] e.k = "g" ->
            IF IsCfgVal(E.mode, E.cls, E.id) THEN [st EXCEPT !.err = "needs-payload-keyword"]
            ELSE
            LET cnt == CASE e.ck = "fixed" -> e.cn
                         [] e.ck = "var" -> 0
                         [] OTHER ->
                            LET v == AttrVal(st.vals, e.cv)
                                base == IF v >= 0 THEN v ELSE FlagCountIn(E.top, 1, 0, e.cv, st.pl)
                            IN IF base < 0 THEN -1
                               ELSE IF E.cls = 16 /\ E.id = 2 /\ E.mode = SET
                                       /\ (LET c == AttrVal(st.vals, "calibTtagValid")
                                           IN IF c >= 0 THEN c > 0 ELSE FlagCountIn(E.top, 1, 0, "calibTtagValid", st.pl) > 0)
                                    THEN base + 1 ELSE base
            IN IF cnt < 0 THEN [st EXCEPT !.err = "group-count-attribute-missing-" \o e.cv]
               ELSE BuildGroup(e.sub, 1, cnt, sfx, st, E)
          [] OTHER -> [st EXCEPT !.err = "unclassified-definition-entry"]

BuildGroup(sub, i, cnt, sfx, st, E) ==
    IF i > cnt \/ st.err # "" THEN st
    ELSE BuildGroup(sub, i + 1, cnt, sfx, BuildSeq(sub, 1, sfx \o Idx(i), st, E), E)

BuildSeq(es, i, sfx, st, E) ==
    IF i > Len(es) \/ st.err # "" THEN st
    ELSE BuildSeq(es, i + 1, sfx, BuildEntry(es[i], sfx, st, E), E)

Build(m, cls, id, pbf, kw) ==
    LET dn == BuildSelect(m, cls, id, kw) IN
    IF dn \in {"", "uncovered"} THEN [def |-> dn, pl |-> <<>>, segs |-> <<>>, names |-> {}, err |-> "not-keyword-constructible"]
    ELSE IF dn = "NOMINAL" THEN [def |-> dn, pl |-> <<>>, segs |-> <<>>, names |-> {}, err |-> ""]
    ELSE LET es == Table(m)[dn]
             st == BuildSeq(es, 1, "", [pl |-> <<>>, vals |-> <<>>, segs |-> <<>>, err |-> ""],
                            [kw |-> kw, pbf |-> pbf, mode |-> m, cls |-> cls, id |-> id, top |-> es])
         IN [def |-> dn, pl |-> st.pl, segs |-> st.segs, names |-> {st.vals[i].n : i \in {j \in 1..Len(st.vals) : ~(st.vals[j].k = "x" /\ IsReservedName(st.vals[j].n))}}, err |-> st.err]

\* name of the attribute (segment) that contains the first byte where two payloads differ; "" if equal
FirstDiffSeg(a, b, segs) ==
    IF a = b THEN ""
    ELSE LET n == IF Len(a) < Len(b) THEN Len(a) ELSE Len(b)
             d == {i \in 1..n : a[i] # b[i]}
         IN IF d = {} THEN "(length)"
            ELSE LET i == CHOOSE i \in d : \A j \in d : i <= j
                     s == {q \in 1..Len(segs) : segs[q].a < i /\ i <= segs[q].b}
                 IN IF s = {} THEN "(outside-definition)" ELSE segs[CHOOSE q \in s : TRUE].n

(***************************************************************************)
(* Growth beyond the listed properties: the exception CLASS a refused      *)
(* keyword construction ends with.  The message cannot be built from       *)
(* keywords at all (no definition in this mode, a definition that needs    *)
(* the payload keyword, a variant whose discriminator is missing):         *)
(* UBXMessageError.  A value its field cannot represent, or a group whose  *)
(* count attribute is missing: UBXTypeError.                               *)
(***************************************************************************)
ConstructClass(b) ==
    IF b.err = "" THEN "message"
    ELSE IF b.err \in {"not-keyword-constructible", "needs-payload-keyword"} THEN "UBXMessageError"
    ELSE IF StartsWith(b.err, "unrepresentable-") \/ StartsWith(b.err, "group-count-attribute-missing-") THEN "UBXTypeError"
    ELSE "any"
=============================================================================
