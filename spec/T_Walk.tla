------------------------------ MODULE T_Walk -------------------------------
(***************************************************************************)
(* Trace acceptor for the payload walk (C02, and the parse half of C16 /   *)
(* C17).  Each event is one UBXReader.parse call on a frame whose payload  *)
(* the harness built from a TLC-generated layout; the recorded attributes  *)
(* are the projections (bytes / bits) of what the real message exposes.    *)
(* The expected attributes are recomputed here FROM THE PAYLOAD BYTES      *)
(* ALONE (counts, discriminators, configuration keys are read out of P).   *)
(***************************************************************************)
EXTENDS UbxStr

Traces == JsonDeserialize(IOEnv.TRACE_FILE)

VARIABLES tid, verdict

\* first index where observed and expected attribute lists differ (0 if none); computed as a minimum over a set (a recursive
\* scan over thousands of attributes costs quadratic time in TLC)
FirstDiff(obs, exp, i0) ==
    LET n == IF Len(obs) < Len(exp) THEN Len(obs) ELSE Len(exp)
        d == {i \in 1..n : obs[i][1] # exp[i].n \/ obs[i][2] # exp[i].k \/ obs[i][3] # exp[i].v \/ obs[i][4] # exp[i].h}
    IN IF d # {} THEN CHOOSE i \in d : \A j \in d : i <= j
       ELSE IF Len(obs) # Len(exp) THEN n + 1 ELSE 0

JudgeC02(e) ==
    LET r == Parse(e.m, e.cls, e.id, e.pbf = 1, e.P) IN
    IF r.err = "uncovered" THEN "triv"
    ELSE IF ~Conforms(r, e.P) THEN "triv"
    ELSE IF e.out # "msg" THEN e.prop \o ":parse-refused:" \o e.out
    ELSE IF e.identity # Identity(e.cls, e.id, e.P) THEN e.prop \o ":identity"
    ELSE LET d == FirstDiff(e.attrs, r.attrs, 1) IN
         IF d = 0 THEN "ok"
         ELSE IF d > Len(e.attrs) THEN e.prop \o ":attribute-missing:" \o r.attrs[d].n
         ELSE IF d > Len(r.attrs) THEN e.prop \o ":extra-attribute:" \o e.attrs[d][1]
         ELSE IF e.attrs[d][1] # r.attrs[d].n THEN e.prop \o ":attribute-name-or-order:" \o r.attrs[d].n \o "/" \o e.attrs[d][1]
         ELSE e.prop \o ":value:" \o r.attrs[d].n

\* beyond the listed properties: str(msg) is the rendering UbxStr!StrOf prescribes for the parse result (reported as a NOTE)
StrNote(e) ==
    IF ~("str" \in DOMAIN e) \/ e.strok # 1 \/ e.out # "msg" THEN ""
    ELSE LET r == Parse(e.m, e.cls, e.id, e.pbf = 1, e.P) IN
         IF r.err # "" \/ ~Conforms(r, e.P) THEN ""
         ELSE LET exp == StrOf(e.cls, e.id, e.P, r, e.ftok) IN
              IF exp = "" THEN "unmodelled" ELSE IF exp = e.str THEN "" ELSE "EXT:str:" \o Identity(e.cls, e.id, e.P)

Note(e) ==
    LET dn == SelectDefName(e.m, e.cls, e.id, e.P) IN
    IF dn = "uncovered" THEN "uncovered-variant-selector"
    ELSE IF e.intended # "" /\ dn # e.intended THEN "route-miss:" \o e.intended \o "->" \o dn
    ELSE ""

Init == tid \in 1..Len(Traces) /\ verdict = "pending"
Next == /\ verdict = "pending"
        /\ LET e == Traces[tid]
               v == JudgeC02(e)
               n == Note(e)
               x == IF v = "ok" THEN StrNote(e) ELSE ""
           IN /\ verdict' = v
              /\ (v # "ok" => PrintT("V " \o ToString(tid) \o " " \o v))
              /\ (x \notin {"", "unmodelled"} => PrintT("E " \o ToString(tid) \o " " \o x))
              /\ (x = "unmodelled" => PrintT("N " \o ToString(tid)))
              /\ (n # "" => PrintT("D " \o ToString(tid) \o " " \o n))
        /\ UNCHANGED tid
Spec == Init /\ [][Next]_<<tid, verdict>>
=============================================================================
