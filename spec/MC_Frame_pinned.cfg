SPECIFICATION Spec
CONSTANTS
  MaxDepth = 2
  ZeroLenShortcut = TRUE
  NoMinLength = TRUE
  Dump = FALSE
INVARIANT AcceptOnlyWellFormed
INVARIANT AcceptAllWellFormed
INVARIANT SingleSubstDetected
INVARIANT RoundTrip
INVARIANT LemmaFramesWellFormed
INVARIANT DumpState
CHECK_DEADLOCK FALSE
