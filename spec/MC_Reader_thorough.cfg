SPECIFICATION Spec
CONSTANTS
  MaxLen = 6
  ZeroEof = FALSE
  Quits = {0, 1, 2}
  Socks = {TRUE, FALSE}
  Filters = {7}
INVARIANT InvNothingLeft
INVARIANT InvSlices
INVARIANT InvRaiseOnlyIfAsked
INVARIANT InvQuietWhenIgnoring
INVARIANT InvPos
INVARIANT InvMask
PROPERTY AppendOnly
PROPERTY Terminates
CHECK_DEADLOCK FALSE
