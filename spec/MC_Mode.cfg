SPECIFICATION Spec
CONSTANTS
  Counts = {0, 1, 2}
INVARIANT Report
CHECK_DEADLOCK FALSE
