----------------------------- MODULE MC_Reader -----------------------------
(***************************************************************************)
(* Exhaustive exploration of the reader machine on EVERY byte stream up to *)
(* MaxLen over a frame-relevant alphabet, under every listed configuration *)
(* and with the protocol parsers' verdict left nondeterministic.           *)
(***************************************************************************)
EXTENDS UbxReader, TLC

CONSTANTS MaxLen, ZeroEof, Quits, Filters, Socks

Alphabet == {181, 98, 36, 71, 211, 0, 1, 10}   \* b5 62 '$' 'G' d3 00 01 LF
NmeaB2 == {71}

VARIABLES stream, cfg, st
vars == <<stream, cfg, st>>

Init == /\ stream \in UNION {[1..n -> Alphabet] : n \in 0..MaxLen}
        /\ cfg \in [filter : Filters, quit : Quits, parsing : BOOLEAN, zeroEof : {ZeroEof}, nmeaB2 : {NmeaB2}, sock : Socks]
        /\ st = InitState

Next == /\ ~Terminal(st)
        /\ \E acc \in (IF NeedsVerdict(st, cfg) THEN BOOLEAN ELSE {TRUE}) :
               st' = Step(st, stream, cfg, acc).s
        /\ UNCHANGED <<stream, cfg>>

Spec == Init /\ [][Next]_vars /\ WF_vars(Next)

\* C07
\* (through a socket wrapper a truncated tail stays in the wrapper's buffer: the claim is about file-like streams)
InvNothingLeft == ~cfg.sock => NothingLeft(st, stream)
InvSlices == Slices(st, stream, NmeaB2)
AppendOnly == [][IsPrefix(st.out, st'.out) /\ IsPrefix(st.errs, st'.errs)]_vars
\* C08 (reader part): every run ends; an exception leaves read() only under ERR_RAISE
Terminates == <>Terminal(st)
InvRaiseOnlyIfAsked == (st.pc = "raised") => cfg.quit = 2
\* C12: the handler is called only under ERR_LOG, nothing recorded under ERR_IGNORE
InvQuietWhenIgnoring == (cfg.quit = 0) => st.errs = <<>>
\* never reads backwards, never past the end
InvPos == st.pos >= 0 /\ st.pos <= Len(stream) /\ st.start <= st.pos
\* C11: nothing outside the mask is delivered; parsed flag follows `parsing`
InvMask == \A i \in 1..Len(st.out) : InMask(cfg.filter, st.out[i].p) /\ st.out[i].parsed = cfg.parsing
=============================================================================
