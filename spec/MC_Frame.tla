----------------------------- MODULE MC_Frame ------------------------------
(***************************************************************************)
(* C05 fault machine and C01 round-trip lemma on the frame layer.          *)
(* A well-formed frame from a small library suffers up to MaxDepth faults  *)
(* (substitution, insertion, deletion, truncation, burst).  The decision   *)
(* procedure must accept only well-formed results.  Every reachable byte   *)
(* string is dumped (one JSON line) for replay into UBXReader.parse.       *)
(***************************************************************************)
EXTENDS UbxFrame, TLC, Json

CONSTANTS MaxDepth, ZeroLenShortcut, NoMinLength, Dump

Alpha == {0, 1, 2, 98, 181, 255}

\* frames that get mutated: zero-length ones (cls/id 0/0 and 6/0), short payloads, one with sync bytes inside
Library == { UbxSerialize(0, 0, <<>>), UbxSerialize(6, 0, <<>>), UbxSerialize(6, 1, <<1>>),
             UbxSerialize(5, 1, <<6, 1>>), UbxSerialize(181, 98, <<181, 98, 0>>),
             UbxSerialize(1, 2, <<0, 0, 0, 0>>) }

\* every frame over the alphabet with payload length 0..3 (for the round-trip lemma)
Payloads == {<<>>} \cup {<<a>> : a \in Alpha} \cup {<<a, b>> : a \in Alpha, b \in Alpha}
            \cup {<<a, b, c>> : a \in Alpha, b \in Alpha, c \in Alpha}
AllSmall == { UbxSerialize(c, i, p) : c \in Alpha, i \in Alpha, p \in Payloads }

VARIABLES cur, depth, last
vars == <<cur, depth, last>>

Init == \/ cur \in Library /\ depth = 0 /\ last = "none"
        \/ cur \in AllSmall /\ depth = MaxDepth /\ last = "lemma"

Subst == \E i \in 1..Len(cur), v \in Alpha :
            /\ v # cur[i]
            /\ cur' = [cur EXCEPT ![i] = v] /\ last' = "subst"
Insert == \E i \in 0..Len(cur), v \in Alpha :
            cur' = SubSeq(cur, 1, i) \o <<v>> \o SubSeq(cur, i + 1, Len(cur)) /\ last' = "insert"
Delete == \E i \in 1..Len(cur) :
            cur' = SubSeq(cur, 1, i - 1) \o SubSeq(cur, i + 1, Len(cur)) /\ last' = "delete"
Truncate == \E n \in 0..(Len(cur) - 1) :
            cur' = SubSeq(cur, 1, n) /\ last' = "truncate"
Burst == \E i \in 1..Len(cur), n \in 2..4, v \in {0, 255} :
            /\ i + n - 1 <= Len(cur)
            /\ cur' = [k \in 1..Len(cur) |-> IF k >= i /\ k < i + n THEN v ELSE cur[k]]
            /\ cur' # cur /\ last' = "burst"

Next == /\ depth < MaxDepth
        /\ depth' = depth + 1
        /\ (Subst \/ Insert \/ Delete \/ Truncate \/ Burst)

Spec == Init /\ [][Next]_vars

Accept(f) == Decide(f, 1, ZeroLenShortcut, NoMinLength) = "accept"

\* C05, design level: nothing malformed is accepted
AcceptOnlyWellFormed == Accept(cur) => WellFormed(cur)
\* and everything well-formed is accepted (the decision is exactly the definition)
AcceptAllWellFormed == WellFormed(cur) => Accept(cur)
\* a single substitution of a valid frame is always detected
SingleSubstDetected == (depth = 1 /\ last = "subst") => ~Accept(cur)
\* C01, design level: serialising the fields of a well-formed frame gives the frame back
RoundTrip == WellFormed(cur) =>
                LET x == Fields(cur) IN UbxSerialize(x.cls, x.id, x.payload) = cur
LemmaFramesWellFormed == (last = "lemma") => WellFormed(cur)

DumpState == Dump => PrintT(ToJson([f |-> cur, wf |-> WellFormed(cur), d |-> depth, k |-> last]))
=============================================================================
