SPECIFICATION Spec
CONSTANTS
  MaxTok = 4
  ZeroEof = FALSE
  Lemma = "all"
INVARIANT LemmaEnds
INVARIANT LemmaCut
INVARIANT LemmaMask
INVARIANT LemmaParsing
INVARIANT LemmaPolicy
INVARIANT LemmaClean
INVARIANT LemmaSocket
INVARIANT LemmaPoll
INVARIANT LemmaResume
CHECK_DEADLOCK FALSE
