SPECIFICATION Spec
CONSTANTS
  Bytes <- Bytes7
  BufSizes = {1, 2, 3, 5, 4096}
  MaxCalls = 3
INVARIANT Conservation
INVARIANT ResultsArePrefix
INVARIANT ResultsAsPrescribed
INVARIANT WritesPassThrough
CHECK_DEADLOCK FALSE
