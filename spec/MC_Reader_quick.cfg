SPECIFICATION Spec
CONSTANTS
  MaxLen = 5
  ZeroEof = FALSE
  Quits = {1, 2}
  Socks = {FALSE}
  Filters = {7}
INVARIANT InvNothingLeft
INVARIANT InvSlices
INVARIANT InvRaiseOnlyIfAsked
INVARIANT InvQuietWhenIgnoring
INVARIANT InvPos
INVARIANT InvMask
PROPERTY AppendOnly
PROPERTY Terminates
CHECK_DEADLOCK FALSE
