------------------------------ MODULE T_Frame ------------------------------
(***************************************************************************)
(* Trace acceptor for the frame layer (C01, C04, C05).  Each recorded      *)
(* event is one public call of the implementation with its result; each    *)
(* is an independent one-step trace (tid picks it).  The judge is total:   *)
(* it returns "ok", "triv" (antecedent of the property false) or the name  *)
(* of the first failing clause.                                            *)
(***************************************************************************)
EXTENDS UbxFrame, UbxHelpers, TLC, Json, IOUtils

Traces == JsonDeserialize(IOEnv.TRACE_FILE)

VARIABLES tid, verdict

\* ---- C01: parse o serialize is the identity on accepted well-formed frames
JudgeC01(e) ==
    LET f == e.f IN
    IF ~(e.out = "msg" /\ WellFormed(f)) THEN "triv"
    ELSE LET x == Fields(f) IN
         IF e.ser # f THEN "C01:serialize"
         ELSE IF e.cls # <<x.cls>> THEN "C01:msg_cls"
         ELSE IF e.mid # <<x.id>> THEN "C01:msg_id"
         ELSE IF e.length # x.len THEN "C01:length"
         ELSE IF e.payload # x.payload THEN "C01:payload"
         ELSE IF e.reprser # f THEN "C01:repr"
         ELSE "ok"

\* growth beyond the listed properties: the TEXT of repr(msg) (C01 only asks that evaluating it gives the frame back)
ReprNote(e) ==
    IF ~("repr" \in DOMAIN e) \/ e.prop # "C01" \/ e.reprok # 1 \/ e.out # "msg" \/ ~WellFormed(e.f) \/ e.mmode \notin 0..2 THEN ""
    ELSE LET x == Fields(e.f) IN
         IF e.repr = MsgRepr(x.cls, x.id, e.mmode, x.payload) THEN "" ELSE "EXT:repr-text"

\* ---- C05: validate=VALCKSUM accepts only well-formed frames, rejects with UBXParseError
JudgeC05(e) ==
    IF e.kind = "parse" THEN
        LET wf == WellFormed(e.f) IN
        IF e.out = "msg" /\ ~wf THEN "C05:accepted-malformed"
        ELSE IF ~wf /\ e.out # "ubxparse" THEN "C05:rejection-not-UBXParseError"
        ELSE IF wf /\ e.out # "msg" THEN "triv"
        ELSE "ok"
    ELSE \* "valnone": g is f with (only) the two checksum bytes changed
        LET f == e.f
            g == e.g
            n == Len(f)
        IN IF ~(WellFormed(f) /\ Len(g) = n /\ SubSeq(g, 1, n - 2) = SubSeq(f, 1, n - 2)
                /\ SubSeq(g, n - 1, n) # SubSeq(f, n - 1, n) /\ e.outf = "msg") THEN "triv"
           ELSE IF e.outg # "msg" THEN "C05:valnone-rejected"
           ELSE IF e.attrsg # e.attrsf THEN "C05:valnone-attributes-differ"
           ELSE IF "sersame" \in DOMAIN e /\ e.sersame = 0 THEN "C05:valnone-message-serialises-differently-from-the-intact-one"
           ELSE "ok"

\* ---- C04: whatever route built it, a message serialises to a well-formed frame
JudgeC04(e) ==
    LET s == e.ser IN
    IF e.built # "msg" THEN "triv"      \* the property quantifies over constructions that succeed
    ELSE IF ~IsBytes(s) \/ ~WellFormed(s) THEN "C04:not-well-formed"
    ELSE IF Fields(s).payload # e.payload THEN "C04:payload-not-embedded"
    ELSE IF Fields(s).len # Len(e.payload) THEN "C04:length-field"
    ELSE IF e.clsid # <<>> /\ <<Fields(s).cls, Fields(s).id>> # e.clsid THEN "C04:class-id"
    ELSE IF \E i \in 1..Len(e.forms) : e.forms[i] # s THEN "C04:addressing-forms-differ"
    ELSE IF \E i \in 1..Len(e.mixed) : e.mixed[i] # s THEN "C04:mixed-addressing-built-a-different-frame"
    ELSE IF e.reparse # "msg" THEN "C04:not-accepted-by-parse"
    ELSE IF e.reser # s THEN "C04:reparse-serialize"
    ELSE "ok"

\* ---- C08 (parse part): a message or a UBX* error, and every returned message can be inspected
JudgeC08(e) ==
    IF e.out = "hang" THEN "C08:parse-hang"
    ELSE IF e.out \notin {"msg", "ubxparse", "ubx"} THEN "C08:foreign-exception-from-parse:" \o e.out
    ELSE IF e.out # "msg" THEN "ok"
    ELSE LET bad == {i \in 1..Len(e.inspect) : e.inspect[i][2] # "ok"} IN
         IF bad = {} THEN "ok"
         ELSE LET i == CHOOSE i \in bad : \A j \in bad : i <= j IN
              "C08:inspect-" \o e.inspect[i][1] \o "-raised:" \o e.inspect[i][2]

JudgeGate(e) ==
    IF e.api = "datastream" THEN (IF e.out = WrapRule(<<e.kind[1] = 1, e.kind[2] = 1, e.kind[3] = 1>>) THEN "ok" ELSE "EXT:wrap-rule:" \o e.out)
    ELSE IF e.out = ModeGate(e.api, e.m) THEN "ok" ELSE "EXT:mode-gate:" \o e.api \o ":" \o e.out

Judge(e) == CASE e.prop = "EXT-gate" -> JudgeGate(e)
              [] e.prop = "C01" -> JudgeC01(e)
              [] e.prop = "C08" -> JudgeC08(e)
              [] e.prop = "C05" -> JudgeC05(e)
              [] e.prop = "C04" -> JudgeC04(e)
              [] OTHER -> "unknown-prop"

Init == tid \in 1..Len(Traces) /\ verdict = "pending"
Next == /\ verdict = "pending"
        /\ LET v == Judge(Traces[tid])
               x == IF v = "ok" THEN ReprNote(Traces[tid]) ELSE ""
           IN
             /\ verdict' = v
             /\ (v # "ok" => PrintT("V " \o ToString(tid) \o " " \o v))
             /\ (x # "" => PrintT("E " \o ToString(tid) \o " " \o x))
        /\ UNCHANGED tid
Spec == Init /\ [][Next]_<<tid, verdict>>
=============================================================================
