------------------------------- MODULE UbxStr -------------------------------
(***************************************************************************)
(* Growth beyond the listed properties: UBXMessage.__str__ as a function   *)
(* of the parse result.                                                    *)
(*                                                                         *)
(*   <UBX(identity)>                              no payload               *)
(*   <UBX(identity, payload=b'\x..')>             unknown (NOMINAL) message*)
(*   <UBX(identity, name=value, name=value, ...)> otherwise                *)
(*                                                                         *)
(* value rendering: integers and bit flags in decimal; raw bitfields and   *)
(* byte strings with every byte escaped (except datumName and MON-VER,     *)
(* which show Python's bytes repr); arrays as Python lists; text as is;    *)
(* gnssId* through the GNSS table; iTOW as UTC time of day; in ACK-* and   *)
(* CFG-MSG the class / message ID pair by name.                            *)
(* Floating point renderings (scaled fields, R4/R8, high-precision sums)   *)
(* are not modelled: the harness supplies Python's str() of those values   *)
(* as opaque tokens (e.ftok) and the specification places them.            *)
(*                                                                         *)
(* A result of "" means "not modelled for this message" (non-ASCII text,   *)
(* values beyond 31 bits where TLC needs an integer): no judgement.        *)
(***************************************************************************)
EXTENDS UbxWalk, UbxHelpers

\* decimal rendering of little-endian magnitude limbs of any width
RECURSIVE DecMag(_)
\* long division of the limbs by ten, most significant limb first: F[i] = remainder carried into limb i
DivBy10(m) ==
    LET F[i \in 0..Len(m)] ==   \* F[i] = <<remainder after limbs Len(m)..i+1 processed>>; built top-down
            IF i = Len(m) THEN 0 ELSE ((F[i + 1] * 256) + m[i + 1]) % 10
        Q == [i \in 1..Len(m) |-> ((F[i] * 256) + m[i]) \div 10]
    IN [q |-> Q, r |-> IF Len(m) = 0 THEN 0 ELSE ((F[1] * 256) + m[1]) % 10]
DecMag(m) ==
    LET s == Strip(m) IN
    IF FitsInt(s) THEN ToString(LEValue(s))
    ELSE LET d == DivBy10(s) IN DecMag(d.q) \o ToString(d.r)

DecUnsigned(b) == DecMag(b)
DecSigned(b) == IF DecodeNeg(b, TRUE) /\ DecodeMag(b, TRUE) # <<>> THEN "-" \o DecMag(DecodeMag(b, TRUE)) ELSE DecMag(DecodeMag(b, TRUE))

RECURSIVE JoinInts(_)
JoinInts(v) == IF v = <<>> THEN "" ELSE IF Len(v) = 1 THEN ToString(v[1]) ELSE ToString(v[1]) \o ", " \o JoinInts(Tail(v))

IsAscii(b) == \A i \in 1..Len(b) : b[i] >= 32 /\ b[i] <= 126
RECURSIVE AsciiStr(_)
AsciiStr(b) == IF b = <<>> THEN "" ELSE SubSeq(Printable, Head(b) - 31, Head(b) - 31) \o AsciiStr(Tail(b))

Pad2(n) == IF n < 10 THEN "0" \o ToString(n) ELSE ToString(n)
Pad6(n) == SubSeq("000000", 1, 6 - Len(ToString(n))) \o ToString(n)
TimeStr(tod) == Pad2(tod[1]) \o ":" \o Pad2(tod[2]) \o ":" \o Pad2(tod[3]) \o (IF tod[4] = 0 THEN "" ELSE "." \o Pad6(tod[4]))

Tok(ftok, name) == LET s == {i \in 1..Len(ftok) : ftok[i][1] = name} IN IF s = {} THEN "" ELSE ftok[CHOOSE i \in s : \A j \in s : i <= j][2]

IsIntAttr(a) == a.k = "x" \/ (a.k = "f" /\ a.t # "CH" /\ SubSeq(a.t, 1, 1) \in {"U", "E", "L", "I"} /\ a.sc = 0 /\ a.h = <<>>)
\* small integer value of an integer attribute, -1 when it does not fit 31 bits / is negative
SmallInt(a) == IF a.k = "x" THEN (IF Len(a.v) <= 30 THEN BitsValue(a.v) ELSE -1)
               ELSE IF SubSeq(a.t, 1, 1) = "I" /\ DecodeNeg(a.v, TRUE) THEN -1
               ELSE IF FitsInt(a.v) THEN LEValue(a.v) ELSE -1

\* plain rendering of one attribute ("" = not modelled)
BaseStr(a, idn, ftok) ==
    IF a.k = "x" THEN (IF Len(a.v) <= 30 THEN ToString(BitsValue(a.v)) ELSE "")
    ELSE IF a.t = "CH" THEN (IF IsAscii(a.v) THEN AsciiStr(a.v) ELSE "")
    ELSE LET kind == SubSeq(a.t, 1, 1) IN
         IF a.sc = 1 \/ a.h # <<>> \/ kind = "R" THEN Tok(ftok, a.n)
         ELSE IF kind \in {"U", "E", "L"} THEN DecUnsigned(a.v)
         ELSE IF kind = "I" THEN DecSigned(a.v)
         ELSE IF kind \in {"X", "C"} THEN (IF a.n = "datumName" \/ idn = "MON-VER" THEN PyBytesRepr(a.v) ELSE EscapeAll(a.v))
         ELSE IF kind = "A" THEN "[" \o JoinInts(a.v) \o "]"
         ELSE ""

\* the ACK-* / CFG-MSG decoration: st.clsid = class byte seen so far (-1 none)
Decorated(a, cls, id, clsid, base) ==
    IF ~(cls = 5 \/ (cls = 6 /\ id = 1)) THEN [s |-> base, clsid |-> clsid]
    ELSE IF a.n \in {"clsID", "msgClass"} /\ IsIntAttr(a) /\ SmallInt(a) \in 0..255 THEN
            LET b == SmallInt(a) IN
            [s |-> IF <<b>> \in ClassKeys THEN ClassMap[<<b>>] ELSE PyBytesRepr(<<b>>), clsid |-> b]
    ELSE IF a.n = "msgID" /\ clsid >= 0 /\ IsIntAttr(a) /\ SmallInt(a) \in 0..255 THEN
            LET k == <<clsid, SmallInt(a)>> IN
            [s |-> IF k \in MsgKeys THEN MsgIdMap[k] ELSE PyBytesRepr(k), clsid |-> clsid]
    ELSE [s |-> base, clsid |-> clsid]

AttrStr(a, cls, id, idn, ftok, clsid) ==
    LET b0 == BaseStr(a, idn, ftok)
        b1 == IF StartsWith(a.n, "gnssId")
              THEN (IF IsIntAttr(a) /\ SmallInt(a) >= 0 THEN Decode(Defs.gnsslist, SmallInt(a)) ELSE "")
              ELSE b0
        b2 == IF a.n = "iTOW"
              THEN (IF IsIntAttr(a) /\ SmallInt(a) >= 0 THEN TimeStr(Itow2Tod(SmallInt(a))) ELSE "")
              ELSE b1
    IN IF b0 = "" \/ b2 = "" THEN [s |-> "", clsid |-> clsid] ELSE Decorated(a, cls, id, clsid, b2)

\* "name=value" items joined with ", " (folded iteratively with FoldLeft; a recursive operator over the thousands of attributes of a
\* message with 255 group items costs quadratic time).  acc.bad as soon as one attribute is not modelled
JoinStep(cls, id, idn, ftok, acc, a) ==
    IF acc.bad THEN acc
    ELSE LET r == AttrStr(a, cls, id, idn, ftok, acc.clsid) IN
         IF r.s = "" /\ ~(a.k = "f" /\ a.t = "CH" /\ a.v = <<>>) THEN [acc EXCEPT !.bad = TRUE]
         ELSE [acc EXCEPT !.s = (IF acc.first THEN "" ELSE acc.s \o ", ") \o a.n \o "=" \o r.s, !.clsid = r.clsid, !.first = FALSE]
JoinAttrs(attrs, cls, id, idn, ftok) ==
    FoldLeft(LAMBDA acc, a : JoinStep(cls, id, idn, ftok, acc, a), [s |-> "", clsid |-> -1, bad |-> FALSE, first |-> TRUE], attrs)

\* expected str(msg) for a conforming parse result r of payload P; "" = not modelled
StrOf(cls, id, P, r, ftok) ==
    LET idn == Identity(cls, id, P) IN
    IF Len(P) = 0 THEN "<UBX(" \o idn \o ")>"
    ELSE IF IsNominal(idn) THEN "<UBX(" \o idn \o ", payload=" \o EscapeAll(P) \o ")>"
    ELSE IF r.attrs = <<>> THEN "<UBX(" \o idn \o ", )>"
    ELSE LET j == JoinAttrs(r.attrs, cls, id, idn, ftok) IN
         IF j.bad THEN "" ELSE "<UBX(" \o idn \o ", " \o j.s \o ")>"
=============================================================================
