----------------------------- MODULE UbxObject -----------------------------
(***************************************************************************)
(* L3: message objects and the shared world.                               *)
(*                                                                         *)
(* World  = the module-level definition tables + configuration database    *)
(*          (a digest), and the bytes written to stdout/stderr.            *)
(* Workers (threads) perform operations (parse / construct / serialize /   *)
(* str) as a Begin, some Micro steps (interleavable with other workers at  *)
(* source-line granularity) and an End carrying the result.                *)
(* The property C13 says: no step of any operation touches the world, and  *)
(* the result is a FUNCTION of the operation's input - whatever happened   *)
(* before it, in the same thread or concurrently; a message, once built,   *)
(* refuses setattr / delattr with UBXMessageError and keeps its            *)
(* serialisation.                                                          *)
(***************************************************************************)
EXTENDS Naturals, Sequences, FiniteSets, TLC

CONSTANTS Workers,     \* thread identifiers
          Inputs,      \* operation inputs (opaque)
          Results,     \* result digests (opaque)
          Steps,       \* micro steps per operation
          MaxOps       \* operations per worker

VARIABLES tables, out, thr, fn, done, sched
vars == <<tables, out, thr, fn, done, sched>>

NoResult == "none"

Init == /\ tables = "T0"
        /\ out = 0
        /\ thr = [w \in Workers |-> [pc |-> "idle", input |-> "none", step |-> 0]]
        /\ fn = [i \in Inputs |-> NoResult]
        /\ done = [w \in Workers |-> 0]
        /\ sched = <<>>

Begin(w, i) == /\ thr[w].pc = "idle" /\ done[w] < MaxOps
               /\ thr' = [thr EXCEPT ![w] = [pc |-> "run", input |-> i, step |-> 0]]
               /\ sched' = Append(sched, <<w, "begin", i>>)
               /\ UNCHANGED <<tables, out, fn, done>>

\* one quantum of the operation: reads the tables, builds private state, writes nothing shared
Micro(w) == /\ thr[w].pc = "run" /\ thr[w].step < Steps
            /\ thr' = [thr EXCEPT ![w].step = @ + 1]
            /\ sched' = Append(sched, <<w, "micro", thr[w].input>>)
            /\ UNCHANGED <<tables, out, fn, done>>

\* the operation returns r: enabled only if r is THE result for this input
End(w, r) == /\ thr[w].pc = "run" /\ thr[w].step = Steps
             /\ fn[thr[w].input] \in {NoResult, r}
             /\ fn' = [fn EXCEPT ![thr[w].input] = r]
             /\ thr' = [thr EXCEPT ![w] = [pc |-> "idle", input |-> "none", step |-> 0]]
             /\ done' = [done EXCEPT ![w] = @ + 1]
             /\ sched' = Append(sched, <<w, "end", thr[w].input>>)
             /\ UNCHANGED <<tables, out>>

Next == \E w \in Workers : (\E i \in Inputs : Begin(w, i)) \/ Micro(w) \/ (\E r \in Results : End(w, r))
Spec == Init /\ [][Next]_vars

\* C13
TablesUntouched == tables = "T0"
Silent == out = 0
\* results are a function of the input: at most one result is ever recorded per input (by construction of End), and
\* every interleaving can complete (no operation is blocked by another worker's progress)
Functional == \A i \in Inputs : fn[i] = NoResult \/ fn[i] \in Results
AllDone == \A w \in Workers : done[w] = MaxOps /\ thr[w].pc = "idle"

(***************************************************************************)
(* Message lifecycle (sequential): mutable during construction, frozen     *)
(* afterwards.                                                             *)
(***************************************************************************)
\* A message object comes about in several ways.  Whatever the way, the object is frozen and stands for the same frame as its
\* source: a copy, a deep copy and an unpickled message (what multiprocessing hands to another process) are UBXMessages "after
\* construction" like any other.
Origins == {"constructor", "parse", "reader", "config-helper", "copy", "deepcopy", "pickle"}
StateOf(origin) == IF origin \in Origins THEN "frozen" ELSE "unknown"
\* a twin (copy / deepcopy / pickle round trip) of a message with frame f and public attributes a: the same frame, the same attributes
Twin(m) == [frame |-> m.frame, attrs |-> m.attrs, state |-> "frozen"]

FrozenStep(state, op) ==   \* op in {"set", "del"} on any attribute name
    IF state = "frozen" THEN [state |-> "frozen", outcome |-> "UBXMessageError", serChanged |-> FALSE]
    ELSE [state |-> state, outcome |-> "ok", serChanged |-> TRUE]
=============================================================================
