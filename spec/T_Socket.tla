------------------------------ MODULE T_Socket -----------------------------
(***************************************************************************)
(* Trace acceptor for C10.                                                 *)
(*  kind "wrapper": a sequence of SocketWrapper.read(n) / readline() calls *)
(*     over a scripted or real socket; every recv() result is logged by    *)
(*     the socket object.  Judged by the prescriptive functions ExpectRead *)
(*     / ExpectLine of the byte sequence (the property), and replayed on   *)
(*     the machine UbxSocket with the logged recv results as segments      *)
(*     (conformance; divergence = note).                                   *)
(*  kind "reader": UBXReader over the socket vs over a file: same items.   *)
(***************************************************************************)
EXTENDS UbxSocket, TLC, Json, IOUtils

Traces == JsonDeserialize(IOEnv.TRACE_FILE)
VARIABLES tid, verdict

\* events: <<"recv", len>>  <<"call", op, n>>  <<"ret", bytes>>
\* (folded over the events with FoldLeft: TLC evaluates it iteratively; deep recursive operators cost quadratic time)
StepCall(S, acc, e) ==
    IF acc.v # "ok" THEN acc
    ELSE CASE e[1] = "call" -> [acc EXCEPT !.op = e[2], !.n = e[3]]
           [] e[1] = "ret" /\ acc.op = "write" -> [acc EXCEPT !.op = "", !.n = 0]   \* outbound: judged by WriteCheck, consumes nothing
           [] e[1] = "ret" ->
                LET exp == IF acc.op = "read" THEN ExpectRead(S, acc.pos, acc.n) ELSE ExpectLine(S, acc.pos) IN
                IF e[2] # exp THEN
                    [acc EXCEPT !.v = IF acc.op = "read" /\ Len(e[2]) \notin {0, acc.n} THEN "C10:read-returned-neither-n-bytes-nor-nothing"
                                      ELSE IF acc.op = "read" THEN "C10:read-returned-wrong-bytes"
                                      ELSE "C10:readline-not-up-to-next-LF"]
                ELSE [acc EXCEPT !.pos = acc.pos + Len(e[2])]
           [] OTHER -> acc

JudgeCalls(t) == FoldLeft(LAMBDA acc, e : StepCall(t.S, acc, e), [pos |-> 0, op |-> "", n |-> 0, v |-> "ok"], t.events).v

TotalReceived(t) == FoldLeft(LAMBDA acc, e : IF e[1] = "recv" THEN acc + e[2] ELSE acc, 0, t.events)

JudgeWrapper(t) ==
    \* a REAL transport that ended before delivering everything is not the scenario claimed; a scripted socket delivers everything it is
    \* asked for, so there every call is judged (a wrapper that stops asking is exactly what must be noticed)
    IF t.scripted # 1 /\ TotalReceived(t) # Len(t.S) THEN "triv"
    ELSE JudgeCalls(t)

\* machine conformance: segments = the logged recv results
RECURSIVE SegsOf(_, _, _)
SegsOf(t, i, pos) ==
    IF i > Len(t.events) THEN <<>>
    ELSE IF t.events[i][1] = "recv" /\ t.events[i][2] > 0
         THEN <<SubSeq(t.S, pos + 1, pos + t.events[i][2])>> \o SegsOf(t, i + 1, pos + t.events[i][2])
         ELSE SegsOf(t, i + 1, pos)

\* consume buffered bytes for the pending request until it returns or needs the socket
RECURSIVE Drain(_)
Drain(x) == IF x.pend \in {"none", "ctor"} \/ NeedsRecv(x) THEN x ELSE Drain(Complete(x))

RECURSIVE Replay(_, _, _)
Replay(t, i, s0) ==
    IF i > Len(t.events) THEN "conf"
    ELSE LET e == t.events[i]
             s == IF e[1] = "recv" THEN Drain(s0) ELSE s0
         IN
         CASE e[1] = "recv" ->
                IF s.pend = "ctor" THEN Replay(t, i + 1, CtorRecv(s, 1000000))
                ELSE IF ~NeedsRecv(s) THEN "drift:recv-issued-when-buffer-sufficient-at-" \o ToString(i)
                ELSE IF Len(RecvData(s, 1000000)) # e[2] THEN "drift:recv-size-at-" \o ToString(i)
                ELSE Replay(t, i + 1, DoRecv(s, 1000000))
           [] e[1] = "send" -> Replay(t, i + 1, s)
           [] e[1] = "call" /\ e[2] = "write" ->
                IF s.pend # "none" THEN "drift:call-while-pending-at-" \o ToString(i)
                ELSE Replay(t, i + 3, Complete(StartWrite(s, e[4])))   \* skips the "send" and "ret" events (judged by WriteCheck)
           [] e[1] = "call" ->
                IF s.pend # "none" THEN "drift:call-while-pending-at-" \o ToString(i)
                ELSE Replay(t, i + 1, IF e[2] = "read" THEN StartRead(s, e[3]) ELSE StartLine(s))
           [] OTHER ->   \* ret: complete without further recv
                LET f == Drain(s)
                IN IF f.pend # "none" THEN "drift:returned-while-machine-needs-recv-at-" \o ToString(i)
                   ELSE IF LastResult(f) # e[2] THEN "drift:result-at-" \o ToString(i)
                   ELSE Replay(t, i + 1, f)

\* beyond the listed properties (note): write(data) hands exactly data to socket.send(), once, returns its result and reads nothing
RECURSIVE WriteCheck(_, _)
WriteCheck(t, i) ==
    IF i > Len(t.events) THEN ""
    ELSE LET e == t.events[i] IN
         IF e[1] = "call" /\ e[2] = "write" THEN
              (IF i + 2 > Len(t.events) THEN "EXT:write-did-not-return"
               ELSE IF t.events[i + 1][1] # "send" \/ t.events[i + 1][2] # e[4] THEN "EXT:write-did-not-pass-the-data-to-send-once"
               ELSE IF t.events[i + 2][1] = "ret" /\ Len(e[4]) = 9 /\ t.events[i + 2][2][1] = -2 THEN WriteCheck(t, i + 3)   \* scripted send failure, passed on to the caller
               ELSE IF t.events[i + 2][1] # "ret" \/ t.events[i + 2][2] # <<Len(e[4])>> THEN "EXT:write-result-is-not-send-result"
               ELSE WriteCheck(t, i + 3))
         ELSE IF e[1] = "send" THEN "EXT:send-without-write"
         ELSE WriteCheck(t, i + 1)

JudgeReader(t) ==
    \* the reader reported end-of-stream although the peer had neither closed nor timed out (bytes were still to come): what it
    \* delivered then depends on how the transport delivers - unless it is what the file stream gives anyway
    IF t.received # t.slen /\ t.sockend = "eof" /\ t.sockitems # t.fileitems THEN "C10:iteration-ended-before-the-peer-closed-or-timed-out"
    ELSE IF t.received # t.slen THEN "triv"
    ELSE IF t.sockend # "eof" THEN "C10:socket-run-did-not-end-normally:" \o t.sockend
    ELSE IF t.sockitems # t.fileitems THEN "C10:items-differ-from-file-stream"
    ELSE IF t.sockpd # t.filepd THEN "C10:parsed-differs-from-file-stream"
    ELSE "ok"

Init == tid \in 1..Len(Traces) /\ verdict = "pending"
Next == /\ verdict = "pending"
        /\ LET t == Traces[tid]
               v == IF t.kind = "wrapper" THEN JudgeWrapper(t) ELSE JudgeReader(t)
               d == IF t.kind = "wrapper" /\ TotalReceived(t) = Len(t.S) THEN Replay(t, 1, SockInit0(SegsOf(t, 1, 0))) ELSE "conf"
               x == IF t.kind = "wrapper" THEN WriteCheck(t, 1) ELSE ""
           IN /\ verdict' = v
              /\ (v # "ok" => PrintT("V " \o ToString(tid) \o " " \o v))
              /\ (x # "" => PrintT("E " \o ToString(tid) \o " " \o x))
              /\ (d # "conf" => PrintT("D " \o ToString(tid) \o " " \o d))
        /\ UNCHANGED tid
Spec == Init /\ [][Next]_<<tid, verdict>>
=============================================================================
