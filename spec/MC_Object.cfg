SPECIFICATION Spec
CONSTANTS
  W1 = W1
  W2 = W2
  W3 = W3
  Workers <- MCWorkers3
  Inputs <- MCInputs
  Results <- MCResults
  Steps = 3
  MaxOps = 2
INVARIANT TablesUntouched
INVARIANT Silent
INVARIANT Functional
VIEW NoHistory
CHECK_DEADLOCK FALSE
