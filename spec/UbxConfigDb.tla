---------------------------- MODULE UbxConfigDb ----------------------------
(***************************************************************************)
(* Configuration-database messages (CFG-VALSET / CFG-VALDEL / CFG-VALGET): *)
(* the documented payload layout of the helpers config_set / config_del /  *)
(* config_poll and the name <-> key-ID lookups.                            *)
(* Keys are 4 little-endian limbs; values are the bytes they denote.       *)
(***************************************************************************)
EXTENDS UbxWalk

MaxItems == 64

NameIdx(name) == {i \in 1..Len(Defs.cfgdb) : Defs.cfgdb[i].n = name}
KnownName(name) == NameIdx(name) # {}
KeyOfName(name) == Defs.cfgdb[CHOOSE i \in NameIdx(name) : TRUE].key
TypeOfName(name) == Defs.cfgdb[CHOOSE i \in NameIdx(name) : TRUE].t

\* an item as supplied: [byname, name, key, v]; its key
ItemKey(it) == IF it.byname = 1 THEN KeyOfName(it.name) ELSE it.key
ItemOK(it) == (it.byname = 1 => KnownName(it.name)) /\ (it.byname = 0 => CfgSize(it.key) >= 0)

RECURSIVE CatItems(_, _, _)
CatItems(items, i, withValue) ==
    IF i > Len(items) THEN <<>>
    ELSE ItemKey(items[i]) \o (IF withValue THEN items[i].v ELSE <<>>) \o CatItems(items, i + 1, withValue)

ValuesFit(items) == \A i \in 1..Len(items) : Len(items[i].v) = CfgSize(ItemKey(items[i]))

CfgSetPayload(layers, txn, items) == <<IF txn = 0 THEN 0 ELSE 1, layers, txn, 0>> \o CatItems(items, 1, TRUE)
CfgDelPayload(layers, txn, items) == <<IF txn = 0 THEN 0 ELSE 1, layers, txn, 0>> \o CatItems(items, 1, FALSE)
CfgPollPayload(layer, position, items) == <<0, layer, position % 256, position \div 256>> \o CatItems(items, 1, FALSE)

=============================================================================
