SPECIFICATION Spec
CONSTANTS
  MaxDepth = 2
  ZeroLenShortcut = FALSE
  NoMinLength = FALSE
  Dump = TRUE
INVARIANT AcceptOnlyWellFormed
INVARIANT AcceptAllWellFormed
INVARIANT SingleSubstDetected
INVARIANT RoundTrip
INVARIANT LemmaFramesWellFormed
INVARIANT DumpState
CHECK_DEADLOCK FALSE
