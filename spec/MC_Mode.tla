------------------------------ MODULE MC_Mode ------------------------------
(***************************************************************************)
(* C17 at design level: for every SET and POLL table entry of the working  *)
(* tree and repeat count c, is the (zero-filled) conforming frame resolved *)
(* to its own mode by the designed length/ID heuristic?  Entries that are  *)
(* not are printed: they are inherent to a heuristic over tables that      *)
(* declare both modes for one message ID.                                  *)
(***************************************************************************)
EXTENDS UbxWalk, UbxFrame

CONSTANTS Counts
VARIABLES m, name, c
vars == <<m, name, c>>
Init == m \in {1, 2} /\ name \in DOMAIN Table(m) /\ c = -1
Next == c = -1 /\ c' \in Counts /\ UNCHANGED <<m, name>>
Spec == Init /\ [][Next]_vars

GrammarSane(es) == \A i \in 1..Len(es) : es[i].k \in {"f", "b", "g"} /\ (es[i].k = "f" => (es[i].s >= 0 \/ es[i].t = "CH"))

Report ==
    (c >= 0 /\ GrammarSane(Table(m)[name])) =>
        LET r0 == Route(name)
            G == [c |-> c, pbf |-> TRUE, ttag |-> 0, mode |-> m, cls |-> r0.cls, id |-> r0.id]
            lay == LayoutGen(Table(m)[name], G)
            z == ZeroFill(lay, r0.bfix, 4)
            f == UbxSerialize(r0.cls, r0.id, z)
            im == InputMode(f, PollWithSelector)
        IN (r0.ok /\ CountsFit(lay) /\ SelectDefName(m, r0.cls, r0.id, z) = name /\ im # ModeName(m)) =>
              PrintT("M " \o ModeName(m) \o " " \o name \o " " \o ToString(Len(z)) \o " resolved-to-" \o im)
=============================================================================
