SPECIFICATION Spec
CONSTANTS
  Counts = {9, 10, 11, 99, 100, 101, 255}
  Dump = TRUE
  Only = {"NAV-SAT", "RXM-RAWX", "AID-ALM", "CFG-VALDEL", "CFG-GNSS", "RXM-SFRBX", "CFG-RINV", "NAV-SBAS", "CFG-VALGET", "CFG-VALSET"}
INVARIANT DumpLayout
CHECK_DEADLOCK FALSE
