----------------------------- MODULE UbxReader -----------------------------
(***************************************************************************)
(* L4: the stream reader UBXReader.read()/__next__ as a state machine over *)
(* a byte stream S, one step per call the reader makes on the stream       *)
(* object (read(n) / readline()) or per observable effect (item returned,  *)
(* error handler called, exception raised, end-of-stream returned).        *)
(*                                                                         *)
(* The machine is a *function*  Step(s, S, C, acc) -> [s, ev]  so that the *)
(* same text drives (a) TLC model checking (Next == s' = Step(...).s),     *)
(* (b) self-composition lemmas via Run(S, C), and (c) trace validation,    *)
(* where ev is compared with the event the real reader produced.           *)
(*                                                                         *)
(* C (configuration record):                                               *)
(*   filter  0..7   protfilter mask (1 NMEA, 2 UBX, 4 RTCM)                *)
(*   quit    0..2   ERR_IGNORE / ERR_LOG / ERR_RAISE                       *)
(*   parsing BOOLEAN                                                       *)
(*   zeroEof BOOLEAN  TRUE = a zero-size read that returns nothing is      *)
(*                    taken for end-of-stream (the defect of the pinned    *)
(*                    tree at d3 00 00); the design has FALSE              *)
(*   nmeaB2  set of bytes accepted after '$'                               *)
(*   sock    BOOLEAN  TRUE = the stream is a SocketWrapper: read(n) returns *)
(*                    n bytes or nothing (UbxSocket), so a short tail is   *)
(*                    seen as end-of-stream instead of a truncated read    *)
(* acc: the protocol parser's verdict for a completed frame (used only in  *)
(* the step that finishes a frame).                                        *)
(***************************************************************************)
EXTENDS UbxFrame

Min2(a, b) == IF a < b THEN a ELSE b

InitState == [pos |-> 0, pc |-> "b1", start |-> 0, need |-> 0, b2 |-> 0, prot |-> "NONE",
              ekind |-> "none", out |-> <<>>, errs |-> <<>>]

Terminal(s) == s.pc \in {"done", "raised"}

Tau == [t |-> "tau"]

\* outcome of stream.read(n) at position pos: number of bytes obtained
Got(s, S, n) == Min2(n, Len(S) - s.pos)

\* classification of a read(n) result by _read_bytes
ReadClass(s, S, n, zeroEof, sock) ==
    LET g == Got(s, S, n) IN
    IF g = 0 /\ (n > 0 \/ zeroEof) THEN "eof"
    ELSE IF g < n THEN (IF sock THEN "eof" ELSE "short")
    ELSE "ok"

\* readline(): up to and including the next LF, or whatever is left
LineLen(s, S) ==
    LET idx == {i \in (s.pos + 1)..Len(S) : S[i] = 10}
    IN IF idx = {} THEN Len(S) - s.pos
       ELSE (CHOOSE i \in idx : \A j \in idx : i <= j) - s.pos

ToErr(s, kind, newpos) == [s EXCEPT !.pc = "err", !.ekind = kind, !.pos = newpos]

\* a fixed-size read step shared by uh / ub / r3 / rp / rc
ReadStep(s, S, C, n, okState) ==
    LET rc == ReadClass(s, S, n, C.zeroEof, C.sock)
        g  == IF C.sock /\ rc = "eof" THEN 0 ELSE Got(s, S, n)
        ev == [t |-> "read", n |-> n, got |-> g]
    IN CASE rc = "eof"   -> [s |-> [s EXCEPT !.pc = "eofret"], ev |-> ev]
         [] rc = "short" -> [s |-> ToErr(s, "short", s.pos + g), ev |-> ev]
         [] OTHER        -> [s |-> okState, ev |-> ev]

Step(s, S, C, acc) ==
    CASE s.pc = "b1" ->
            LET g == Got(s, S, 1)
                ev == [t |-> "read", n |-> 1, got |-> g]
            IN IF g = 0 THEN [s |-> [s EXCEPT !.pc = "eofret"], ev |-> ev]
               ELSE LET b == S[s.pos + 1] IN
                    IF b \in {181, 36, 211}
                    THEN [s |-> [s EXCEPT !.pc = "b2", !.start = s.pos, !.pos = s.pos + 1], ev |-> ev]
                    ELSE [s |-> [s EXCEPT !.pos = s.pos + 1], ev |-> ev]
      [] s.pc = "b2" ->
            LET g == Got(s, S, 1)
                ev == [t |-> "read", n |-> 1, got |-> g]
            IN IF g = 0 THEN [s |-> [s EXCEPT !.pc = "eofret"], ev |-> ev]
               ELSE LET b1 == S[s.start + 1]
                        b2 == S[s.pos + 1]
                        p  == Protocol(b1, b2, C.nmeaB2)
                        s1 == [s EXCEPT !.pos = s.pos + 1, !.b2 = b2, !.prot = p]
                    IN CASE p = "UBX"  -> [s |-> [s1 EXCEPT !.pc = "uh"], ev |-> ev]
                         [] p = "NMEA" -> [s |-> [s1 EXCEPT !.pc = "nl"], ev |-> ev]
                         [] p = "RTCM" -> [s |-> [s1 EXCEPT !.pc = "r3"], ev |-> ev]
                         [] OTHER      -> [s |-> ToErr(s1, "hdr", s1.pos), ev |-> ev]
      [] s.pc = "uh" ->
            ReadStep(s, S, C, 4,
                     [s EXCEPT !.pc = "ub", !.pos = s.pos + 4,
                               !.need = (IF Got(s, S, 4) = 4 THEN LE16(S[s.pos + 3], S[s.pos + 4]) ELSE 0) + 2])
      [] s.pc = "ub" ->
            ReadStep(s, S, C, s.need, [s EXCEPT !.pc = "fin", !.pos = s.pos + s.need])
      [] s.pc = "nl" ->
            LET g  == LineLen(s, S)
                ev == [t |-> "readline", n |-> 0, got |-> g]
            IN IF g = 0 THEN [s |-> [s EXCEPT !.pc = "eofret"], ev |-> ev]
               ELSE IF S[s.pos + g] # 10 THEN [s |-> ToErr(s, "short", s.pos + g), ev |-> ev]
               ELSE [s |-> [s EXCEPT !.pc = "fin", !.pos = s.pos + g], ev |-> ev]
      [] s.pc = "r3" ->
            ReadStep(s, S, C, 1,
                     [s EXCEPT !.pc = "rp", !.pos = s.pos + 1,
                               !.need = (IF Got(s, S, 1) = 1 THEN S[s.pos + 1] ELSE 0) + 256 * s.b2])
      [] s.pc = "rp" ->
            ReadStep(s, S, C, s.need, [s EXCEPT !.pc = "rc", !.pos = s.pos + s.need])
      [] s.pc = "rc" ->
            ReadStep(s, S, C, 3, [s EXCEPT !.pc = "fin", !.pos = s.pos + 3])
      [] s.pc = "fin" ->
            \* frame complete: S[start+1 .. pos]; filter, parse, deliver
            IF ~InMask(C.filter, s.prot) THEN [s |-> [s EXCEPT !.pc = "b1"], ev |-> Tau]
            ELSE IF C.parsing /\ ~acc THEN [s |-> ToErr(s, "parse", s.pos), ev |-> Tau]
            ELSE LET it == [a |-> s.start, b |-> s.pos, p |-> s.prot, parsed |-> C.parsing]
                 IN [s |-> [s EXCEPT !.pc = "b1", !.out = Append(s.out, it)],
                     ev |-> [t |-> "item", a |-> it.a, b |-> it.b, p |-> it.p, parsed |-> it.parsed]]
      [] s.pc = "err" ->
            LET er == [k |-> s.ekind, a |-> s.start, b |-> s.pos] IN
            CASE C.quit = 0 -> [s |-> [s EXCEPT !.pc = "b1"], ev |-> Tau]
              [] C.quit = 1 -> [s |-> [s EXCEPT !.pc = "b1", !.errs = Append(s.errs, er)],
                                ev |-> [t |-> "handler", k |-> er.k, a |-> er.a, b |-> er.b]]
              [] OTHER      -> [s |-> [s EXCEPT !.pc = "raised", !.errs = Append(s.errs, er)],
                                ev |-> [t |-> "raise", k |-> er.k, a |-> er.a, b |-> er.b]]
      [] s.pc = "eofret" -> [s |-> [s EXCEPT !.pc = "done"], ev |-> [t |-> "eof"]]
      [] OTHER -> [s |-> s, ev |-> Tau]

NeedsVerdict(s, C) == s.pc = "fin" /\ InMask(C.filter, s.prot) /\ C.parsing

FrameOf(s, S) == SubSeq(S, s.start + 1, s.pos)

(***************************************************************************)
(* Interpreted parser verdicts for model checking (the real third-party    *)
(* parsers are environment; in trace validation their verdict is logged):  *)
(* UBX: the frame is well-formed; RTCM3: non-empty payload and CRC-24Q     *)
(* matches; NMEA: the line is in the designated set of good sentences.     *)
(***************************************************************************)
RtcmOk(f) == /\ Len(f) > 6
             /\ Crc24Q(SubSeq(f, 1, Len(f) - 3)) = SubSeq(f, Len(f) - 2, Len(f))

(***************************************************************************)
(* NMEA 0183 checksum as pynmeagps validates it: strip leading / trailing  *)
(* '$' CR LF, split at the first '*', the two characters after it are the  *)
(* hexadecimal XOR of the characters before it (either case).  Defined on  *)
(* ASCII lines.                                                            *)
(***************************************************************************)
NmeaStripSet == {36, 13, 10}
RECURSIVE LStrip(_), RStrip(_)
LStrip(s) == IF s # <<>> /\ Head(s) \in NmeaStripSet THEN LStrip(Tail(s)) ELSE s
RStrip(s) == IF s # <<>> /\ s[Len(s)] \in NmeaStripSet THEN RStrip(SubSeq(s, 1, Len(s) - 1)) ELSE s
UpperByte(c) == IF c >= 97 /\ c <= 122 THEN c - 32 ELSE c
HexUpperByte(n) == IF n < 10 THEN 48 + n ELSE 55 + n
NmeaAscii(f) == \A i \in 1..Len(f) : f[i] < 128
NmeaCkOk(f) ==
    LET s == RStrip(LStrip(f))
        stars == {i \in 1..Len(s) : s[i] = 42}
    IN /\ stars # {}
       /\ LET st == CHOOSE i \in stars : \A j \in stars : i <= j
               x  == Xor8(SubSeq(s, 1, st - 1))
               ck == SubSeq(s, st + 1, Len(s))
           IN [i \in 1..Len(ck) |-> UpperByte(ck[i])] = <<HexUpperByte(x \div 16), HexUpperByte(x % 16)>>

\* what a frame must satisfy for its protocol's parser to accept it when checksums are validated (necessary, not sufficient)
Interpreted(f, p) ==
    CASE p = "UBX"  -> WellFormed(f)
      [] p = "RTCM" -> RtcmOk(f)
      [] p = "NMEA" -> ~NmeaAscii(f) \/ NmeaCkOk(f)
      [] OTHER -> FALSE

RuleVerdict(f, p, goodNmea) ==
    CASE p = "UBX"  -> WellFormed(f)
      [] p = "RTCM" -> RtcmOk(f)
      [] p = "NMEA" -> f \in goodNmea
      [] OTHER -> FALSE

\* run to completion with the rule verdicts (bounded by fuel: every step but tau/err consumes >= 0 bytes)
RECURSIVE RunFrom(_, _, _, _, _)
RunFrom(s, S, C, goodNmea, fuel) ==
    IF Terminal(s) \/ fuel = 0 THEN s
    ELSE RunFrom(Step(s, S, C, RuleVerdict(FrameOf(s, S), s.prot, goodNmea)).s, S, C, goodNmea, fuel - 1)

Run(S, C, goodNmea) == RunFrom(InitState, S, C, goodNmea, 6 * Len(S) + 12)

\* a polling caller: after end-of-stream was reported, read() is called again (polls times).  The machine resumes scanning at the
\* current position: over a file-like stream that is the end; over a socket wrapper it is the start of a tail that an all-or-nothing
\* read could not complete - the header bytes of the unfinished frame are gone, what follows them is scanned as top-level data
RECURSIVE RunPoll(_, _, _, _, _)
RunPoll(s, S, C, goodNmea, polls) ==
    LET r == RunFrom(s, S, C, goodNmea, 6 * Len(S) + 12) IN
    IF r.pc = "done" /\ polls > 0 THEN RunPoll([r EXCEPT !.pc = "b1"], S, C, goodNmea, polls - 1) ELSE r

\* a caller under ERR_RAISE who catches the exception and carries on with the same reader / iterator: reading resumes where the
\* rejected frame ended - exactly where an ERR_LOG reader would be after reporting it
RECURSIVE RunResume(_, _, _, _, _)
RunResume(s, S, C, goodNmea, catches) ==
    LET r == RunFrom(s, S, C, goodNmea, 6 * Len(S) + 12) IN
    IF r.pc = "raised" /\ catches > 0 THEN RunResume([r EXCEPT !.pc = "b1"], S, C, goodNmea, catches - 1) ELSE r

(***************************************************************************)
(* State predicates (used as invariants by the MC modules)                 *)
(***************************************************************************)
\* once iteration stopped, nothing is left unread
NothingLeft(s, S) == s.pc = "done" => s.pos = Len(S)

\* delivered items are disjoint, ordered slices that start with their protocol's preamble
Slices(s, S, nmeaB2) ==
    /\ \A i \in 1..Len(s.out) :
          LET it == s.out[i] IN
            /\ 0 <= it.a /\ it.a + 2 <= it.b /\ it.b <= s.pos
            /\ Protocol(S[it.a + 1], S[it.a + 2], nmeaB2) = it.p /\ it.p # "NONE"
    /\ \A i \in 1..(Len(s.out) - 1) : s.out[i].b <= s.out[i + 1].a

\* the raw bytes of the delivered items
Raws(s, S) == [i \in 1..Len(s.out) |-> SubSeq(S, s.out[i].a + 1, s.out[i].b)]

=============================================================================
