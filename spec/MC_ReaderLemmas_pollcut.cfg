SPECIFICATION Spec
CONSTANTS
  MaxTok = 2
  ZeroEof = FALSE
  Lemma = "pollcut"
INVARIANT LemmaPollCutSock
CHECK_DEADLOCK FALSE
