------------------------------ MODULE UbxWalk ------------------------------
(***************************************************************************)
(* L2: the payload walk.  What a payload definition of the working tree    *)
(* MEANS for a concrete payload:                                           *)
(*   - Identity(cls, id, P)          the message name                      *)
(*   - SelectDefName(mode,cls,id,P)  which table entry applies (variants)  *)
(*   - Parse(mode,cls,id,pbf,P)      the ordered attributes and the bytes  *)
(*                                   (or bits) each one denotes            *)
(*   - LayoutGen(def, c, pbf)        the layout of a payload with every    *)
(*                                   counted / variable group repeated c   *)
(*                                   times (used to GENERATE payloads)     *)
(* Attribute values are kept abstract: a field denotes its byte slice, a   *)
(* bit flag denotes its bit slice (LSB first).  Numeric meaning (two's     *)
(* complement, IEEE-754, scaling) is applied by the projection on the      *)
(* implementation side, see DESIGN.md section 2.2.                         *)
(* The definition tables are DATA exported from the working tree.          *)
(***************************************************************************)
EXTENDS UbxBytes, TLC, Json, IOUtils

Defs == JsonDeserialize(IOEnv.DEFS_FILE)

GET == 0
SET == 1
POLL == 2
ModeName(m) == CASE m = 0 -> "GET" [] m = 1 -> "SET" [] OTHER -> "POLL"
Table(m) == Defs.defs[ModeName(m)]
HasDef(m, name) == name \in DOMAIN Table(m)

MsgKeys == {Defs.msgids[i].key : i \in 1..Len(Defs.msgids)}
MsgIdMap == [k \in MsgKeys |-> Defs.msgids[CHOOSE i \in 1..Len(Defs.msgids) : Defs.msgids[i].key = k].name]
ClassKeys == {Defs.classes[i].key : i \in 1..Len(Defs.classes)}
ClassMap == [k \in ClassKeys |-> Defs.classes[CHOOSE i \in 1..Len(Defs.classes) : Defs.classes[i].key = k].name]

StartsWith(s, p) == Len(s) >= Len(p) /\ SubSeq(s, 1, Len(p)) = p

(***************************************************************************)
(* Identity: message-ID table lookup; MGA (class 0x13) except MGA-DBD is   *)
(* identified by class, id and the first payload byte; anything unknown    *)
(* gets the name <CLASS|UNKNOWN>-ccii-NOMINAL.                             *)
(***************************************************************************)
Identity(cls, id, P) ==
    LET key == IF cls = 19 /\ id # 128 THEN <<cls, id>> \o Slice(P, 0, 1) ELSE <<cls, id>>
    IN IF key \in MsgKeys THEN MsgIdMap[key]
       ELSE (IF <<cls>> \in ClassKeys THEN ClassMap[<<cls>>] ELSE "UNKNOWN")
            \o "-" \o Hex2(cls) \o Hex2(id) \o "-NOMINAL"

IsNominal(name) == Len(name) >= 7 /\ SubSeq(name, Len(name) - 6, Len(name)) = "NOMINAL"

(***************************************************************************)
(* Variant selection (transcription of the documented rules in             *)
(* ubxvariants.py): by payload length or by a discriminator byte.          *)
(* Result: the table entry name, "" when there is none (unknown message    *)
(* in that mode), "NOMINAL" for unknown GET messages (no attributes).      *)
(***************************************************************************)
VariantKeys(m) == {Defs.variants[ModeName(m)][i] : i \in 1..Len(Defs.variants[ModeName(m)])}

\* keys whose selection rule this specification knows
KnownVariantKeys(m) ==
    CASE m = POLL -> {<<6, 49>>}
      [] m = SET  -> {<<19, 0>>, <<19, 2>>, <<19, 3>>, <<19, 5>>, <<19, 6>>, <<19, 33>>, <<19, 64>>,
                      <<2, 114>>, <<2, 65>>, <<13, 21>>, <<6, 6>>}
      [] OTHER    -> {<<11, 50>>, <<19, 33>>, <<19, 96>>, <<2, 114>>, <<2, 89>>, <<6, 23>>, <<1, 96>>, <<1, 60>>, <<39, 9>>}

B(P, i) == IF i < Len(P) THEN P[i + 1] ELSE -1     \* 0-based byte or -1

VariantName(m, cls, id, P) ==
    LET k == <<cls, id>> IN
    CASE m = POLL /\ k = <<6, 49>>  -> IF Len(P) = 1 THEN "CFG-TP5-TPX" ELSE "CFG-TP5"
      [] cls = 19 /\ k \in KnownVariantKeys(m) -> Identity(cls, id, P)
      [] k = <<2, 114>>             -> IF B(P, 0) = 0 THEN "RXM-PMP-V0" ELSE "RXM-PMP-V1"
      [] m = SET /\ k = <<2, 65>>   -> IF Len(P) = 16 THEN "RXM-PMREQ" ELSE "RXM-PMREQ-S"
      [] m = SET /\ k = <<13, 21>>  -> IF Len(P) = 1 THEN "TIM-VCOCAL-V0" ELSE "TIM-VCOCAL"
      [] m = SET /\ k = <<6, 6>>    -> IF Len(P) = 2 THEN "CFG-DAT-NUM" ELSE "CFG-DAT"
      [] m = GET /\ k = <<11, 50>>  -> IF B(P, 1) = 255 THEN "AID-ALPSRV-SEND" ELSE "AID-ALPSRV-REQ"
      [] m = GET /\ k = <<2, 89>>   -> IF B(P, 1) = 1 THEN "RXM-RLM-S" ELSE "RXM-RLM-L"
      [] m = GET /\ k = <<6, 23>>   -> IF Len(P) = 4 THEN "CFG-NMEAvX" ELSE IF Len(P) = 12 THEN "CFG-NMEAv0" ELSE "CFG-NMEA"
      [] m = GET /\ k = <<1, 96>>   -> IF Len(P) = 20 THEN "NAV-AOPSTATUS-L" ELSE "NAV-AOPSTATUS"
      [] m = GET /\ k = <<1, 60>>   -> IF B(P, 0) = 0 THEN "NAV-RELPOSNED-V0" ELSE "NAV-RELPOSNED"
      [] m = GET /\ k = <<39, 9>>   -> IF B(P, 0) = 1 THEN "SEC-SIG-V1" ELSE "SEC-SIG-V2"
      [] OTHER -> "?"

\* "uncovered" = the tree has a variant selector this specification does not know
SelectDefName(m, cls, id, P) ==
    LET k == <<cls, id>> IN
    IF k \in VariantKeys(m) THEN
        (IF k \in KnownVariantKeys(m)
         THEN LET n == VariantName(m, cls, id, P) IN IF HasDef(m, n) THEN n ELSE ""
         ELSE "uncovered")
    ELSE LET n == Identity(cls, id, P) IN
         IF m = GET /\ IsNominal(n) THEN "NOMINAL"
         ELSE IF HasDef(m, n) THEN n ELSE ""

(***************************************************************************)
(* Group suffixes: _01, _02, ... (two digits, more when needed)            *)
(***************************************************************************)
Idx(i) == IF i < 10 THEN "_0" \o ToString(i) ELSE "_" \o ToString(i)

IsReservedName(n) == StartsWith(n, "reserved")
IsHP(n) == StartsWith(n, "_HP")

(***************************************************************************)
(* Configuration database (CFG-VALGET response / CFG-VALSET)               *)
(***************************************************************************)
CfgIdx(key) == {i \in 1..Len(Defs.cfgdb) : Defs.cfgdb[i].key = key}
StorSize(code) == LET s == {i \in 1..Len(Defs.storsize) : Defs.storsize[i].code = code}
                  IN IF s = {} THEN -1 ELSE Defs.storsize[CHOOSE i \in s : TRUE].size
TypeSize(t) == IF t = "CH" THEN -1
               ELSE (CASE SubSeq(t, 2, 2) = "0" -> 0 [] SubSeq(t, 2, 2) = "1" -> 100 [] SubSeq(t, 2, 2) = "2" -> 200 [] OTHER -> 0)
                    + (CHOOSE d \in 0..9 : HexDigit(d) = SubSeq(t, 3, 3)) * 10
                    + (CHOOSE d \in 0..9 : HexDigit(d) = SubSeq(t, 4, 4))
\* hex(key) without leading zeros, key given as 4 LE limbs
RECURSIVE StripZeros(_)
StripZeros(s) == IF Len(s) > 1 /\ SubSeq(s, 1, 1) = "0" THEN StripZeros(SubSeq(s, 2, Len(s))) ELSE s
KeyHex(key) == StripZeros(Hex2(key[4]) \o Hex2(key[3]) \o Hex2(key[2]) \o Hex2(key[1]))
\* name and storage size of a configuration key
CfgName(key) == IF CfgIdx(key) # {} THEN Defs.cfgdb[CHOOSE i \in CfgIdx(key) : \A j \in CfgIdx(key) : i <= j].n
                ELSE "CFG_0x" \o KeyHex(key)
CfgType(key) == IF CfgIdx(key) # {} THEN Defs.cfgdb[CHOOSE i \in CfgIdx(key) : \A j \in CfgIdx(key) : i <= j].t
                ELSE "X00" \o ToString(StorSize(key[4] \div 16))
CfgSize(key) == IF CfgIdx(key) # {} THEN TypeSize(Defs.cfgdb[CHOOSE i \in CfgIdx(key) : \A j \in CfgIdx(key) : i <= j].t)
                ELSE StorSize(key[4] \div 16)   \* (bit 31 is not masked off: the library - and its test suite - refuse 0x8.......)

IsCfgVal(m, cls, id) == cls = 6 /\ ((id = 139 /\ m = GET) \/ (id = 138 /\ m = SET))

RECURSIVE CfgItems(_, _, _)
\* key/value items from byte offset off to the end of P
CfgItems(P, off, acc) ==
    IF off >= Len(P) THEN [attrs |-> acc, err |-> ""]
    ELSE IF off + 4 > Len(P) THEN [attrs |-> acc, err |-> "cfg-key-truncated"]
    ELSE LET key == SubSeq(P, off + 1, off + 4)
             sz  == CfgSize(key)
         IN IF sz < 0 THEN [attrs |-> acc, err |-> "cfg-key-size-code"]
            ELSE IF off + 4 + sz > Len(P) THEN [attrs |-> acc, err |-> "cfg-value-truncated"]
            ELSE CfgItems(P, off + 4 + sz,
                          Append(acc, [n |-> CfgName(key), k |-> "f", v |-> SubSeq(P, off + 5, off + 4 + sz), h |-> <<>>,
                                        t |-> CfgType(key), sc |-> 0]))

(***************************************************************************)
(* The walk (parse direction).  State: off, attrs, err.                    *)
(* attrs entries: [n, k, v, h, t, sc]  k = "f" field (v = bytes) / "x" flag *)
(* (v = bits LSB first); h = bytes of a folded-in high precision           *)
(* companion; t = declared type, sc = 1 iff the definition gives a scale.  *)
(***************************************************************************)
AttrIdx(attrs, name) == {i \in 1..Len(attrs) : attrs[i].n = name}
AttrVal(attrs, name) ==    \* integer value of an earlier attribute, -1 if absent or too large
    LET s == AttrIdx(attrs, name) IN
    IF s = {} THEN -1
    ELSE LET a == attrs[CHOOSE i \in s : \A j \in s : i >= j] IN
         IF a.k = "x" THEN (IF Len(a.v) <= 30 THEN BitsValue(a.v) ELSE -1)
         ELSE IF FitsInt(a.v) THEN LEValue(a.v) ELSE -1

\* bits of the (possibly short) byte slice padded with zeros to nbits
PadBits(bytes, nbits) == LET b == BitsOf(bytes) IN [i \in 1..nbits |-> IF i <= Len(b) THEN b[i] ELSE 0]

GroupSize(sub) ==   \* bytes of one repeat of a variable-by-size group (direct members only)
    FoldLeft(LAMBDA acc, e : acc + (IF e.k = "g" THEN 0 ELSE e.s), 0, sub)

RECURSIVE WalkSeq(_, _, _, _, _), WalkGroup(_, _, _, _, _, _), WalkFlags(_, _, _, _, _, _), FlagCountIn(_, _, _, _, _)

WalkFlags(flags, i, bits, bo, sfx, acc) ==
    IF i > Len(flags) THEN acc
    ELSE LET f == flags[i]
             hi == IF bo + f.s <= Len(bits) THEN bo + f.s ELSE Len(bits)
             v == IF bo >= Len(bits) THEN [j \in 1..f.s |-> 0]
                  ELSE [j \in 1..f.s |-> IF bo + j <= Len(bits) THEN bits[bo + j] ELSE 0]
             acc2 == IF IsReservedName(f.n) THEN acc
                     ELSE Append(acc, [n |-> f.n \o sfx, k |-> "x", v |-> v, h |-> <<>>, t |-> f.t, sc |-> 0])
         IN WalkFlags(flags, i + 1, bits, bo + f.s, sfx, acc2)

WalkEntry(e, sfx, st, E) ==
    IF st.err # "" THEN st
    ELSE CASE e.k = "f" ->
            LET size == IF e.t = "CH" THEN Len(E.P) ELSE e.s
                bytes == Slice(E.P, st.off, st.off + size)
                short == e.t # "CH" /\ st.off + size > Len(E.P)
                name == e.n \o sfx
            IN IF short THEN [st EXCEPT !.err = "payload-too-short-at-" \o name]
               ELSE IF IsHP(name) THEN
                    LET base == SubSeq(name, 4, Len(name))
                        s == AttrIdx(st.attrs, base)
                    IN IF s = {} THEN [st EXCEPT !.err = "hp-without-base-" \o name]
                       ELSE LET i == CHOOSE i \in s : \A j \in s : i >= j
                            IN [st EXCEPT !.off = st.off + size, !.attrs[i].h = bytes]
               ELSE [st EXCEPT !.off = st.off + size,
                               !.attrs = Append(st.attrs, [n |-> name, k |-> "f", v |-> bytes, h |-> <<>>, t |-> e.t, sc |-> e.sc])]
          [] e.k = "b" ->
            LET bytes == Slice(E.P, st.off, st.off + e.s)
                short == st.off + e.s > Len(E.P)
            IN IF short THEN [st EXCEPT !.err = "payload-too-short-at-" \o e.n \o sfx]
               ELSE IF E.pbf
                    THEN [st EXCEPT !.off = st.off + e.s,
                                    !.attrs = WalkFlags(e.sub, 1, PadBits(bytes, 8 * e.s), 0, sfx, st.attrs)]
                    ELSE [st EXCEPT !.off = st.off + e.s,
                                    !.attrs = Append(st.attrs, [n |-> e.n \o sfx, k |-> "f", v |-> bytes, h |-> <<>>, t |-> e.t, sc |-> 0])]
          [] e.k = "g" ->
            IF IsCfgVal(E.mode, E.cls, E.id) THEN
                LET r == CfgItems(E.P, st.off, st.attrs)
                IN [st EXCEPT !.off = Len(E.P), !.attrs = r.attrs, !.err = r.err]
            ELSE
            LET gs == GroupSize(e.sub)
                cnt == CASE e.ck = "fixed" -> e.cn
                         [] e.ck = "var" -> IF gs = 0 THEN -2
                                            ELSE IF Len(E.P) - st.off < 0 THEN 0 ELSE (Len(E.P) - st.off) \div gs
                         [] OTHER ->
                            \* count named by an earlier attribute; with parsebitfield=0 a count that lives in a
                            \* bit flag is read from the flag's bits all the same (E.cnt carries such counts)
                            LET v == AttrVal(st.attrs, e.cv) IN
                            LET base == IF v >= 0 THEN v ELSE FlagCountIn(E.top, 1, 0, e.cv, E.P) IN
                            IF base < 0 THEN -1
                            ELSE IF E.cls = 16 /\ E.id = 2 /\ E.mode = SET
                                    /\ (LET c == AttrVal(st.attrs, "calibTtagValid")
                                        IN IF c >= 0 THEN c > 0 ELSE FlagCountIn(E.top, 1, 0, "calibTtagValid", E.P) > 0)
                                 THEN base + 1 ELSE base
            IN IF cnt = -1 THEN [st EXCEPT !.err = "group-count-attribute-missing-" \o e.cv]
               ELSE IF cnt = -2 THEN [st EXCEPT !.err = "empty-variable-group"]
               ELSE WalkGroup(e.sub, 1, cnt, sfx, st, E)
          [] OTHER -> [st EXCEPT !.err = "unclassified-definition-entry-" \o e.n]

WalkGroup(sub, i, cnt, sfx, st, E) ==
    IF i > cnt \/ st.err # "" THEN st
    ELSE WalkGroup(sub, i + 1, cnt, sfx, WalkSeq(sub, 1, sfx \o Idx(i), st, E), E)

WalkSeq(es, i, sfx, st, E) ==
    IF i > Len(es) \/ st.err # "" THEN st
    ELSE WalkSeq(es, i + 1, sfx, WalkEntry(es[i], sfx, st, E), E)

(***************************************************************************)
(* Counts that live in bit flags, for the raw-bitfield view: locate the    *)
(* flag in the top-level entries of the definition and read its bits.      *)
(***************************************************************************)
FlagCountIn(es, i, off, name, P) ==
    IF i > Len(es) THEN -1
    ELSE LET e == es[i] IN
         IF e.k = "g" THEN -1     \* only flags that precede every group are supported
         ELSE IF e.k = "b" THEN
              LET hit == {j \in 1..Len(e.sub) : e.sub[j].n = name}
              IN IF hit = {} THEN FlagCountIn(es, i + 1, off + e.s, name, P)
                 ELSE LET j == CHOOSE j \in hit : TRUE
                          bo == FoldLeft(LAMBDA acc, f : acc + f.s, 0, SubSeq(e.sub, 1, j - 1))
                          bits == PadBits(Slice(P, off, off + e.s), 8 * e.s)
                      IN IF e.sub[j].s <= 30 /\ bo + e.sub[j].s <= Len(bits)
                         THEN BitsValue(SubSeq(bits, bo + 1, bo + e.sub[j].s)) ELSE -1
         ELSE IF e.t = "CH" THEN -1
         ELSE FlagCountIn(es, i + 1, off + e.s, name, P)

\* README: a message without payload has no attributes (whatever its definition)
Parse(m, cls, id, pbf, P) ==
    LET dn == SelectDefName(m, cls, id, P) IN
    IF Len(P) = 0 THEN [def |-> "EMPTY", attrs |-> <<>>, err |-> "", off |-> 0]
    ELSE IF dn = "" THEN [def |-> dn, attrs |-> <<>>, err |-> "no-definition", off |-> 0]
    ELSE IF dn = "uncovered" THEN
         \* a variant selector of the tree that this specification does not know: a payload laid out exactly as the entry that bears
         \* the message's own name is still expected to be parsed by that entry; anything else is left unjudged ("uncovered")
         LET base == Identity(cls, id, P) IN
         IF ~HasDef(m, base) THEN [def |-> dn, attrs |-> <<>>, err |-> "uncovered", off |-> 0]
         ELSE LET es == Table(m)[base]
                  st == WalkSeq(es, 1, "", [off |-> 0, attrs |-> <<>>, err |-> ""],
                                [P |-> P, pbf |-> pbf, mode |-> m, cls |-> cls, id |-> id, top |-> es])
              IN IF st.err = "" /\ st.off = Len(P) THEN [def |-> base, attrs |-> st.attrs, err |-> "", off |-> st.off]
                 ELSE [def |-> dn, attrs |-> <<>>, err |-> "uncovered", off |-> 0]
    ELSE IF dn = "NOMINAL" THEN [def |-> dn, attrs |-> <<>>, err |-> "", off |-> Len(P)]
    ELSE LET es == Table(m)[dn]
             st == WalkSeq(es, 1, "", [off |-> 0, attrs |-> <<>>, err |-> ""],
                           [P |-> P, pbf |-> pbf, mode |-> m, cls |-> cls, id |-> id, top |-> es])
         IN [def |-> dn, attrs |-> st.attrs, err |-> st.err, off |-> st.off]

\* the payload is laid out exactly according to the definition
Conforms(r, P) == r.err = "" /\ r.off = Len(P)

(***************************************************************************)
(* Generation side: the layout of a payload in which every counted and     *)
(* every variable-by-size group is repeated c times.  Entries:             *)
(*  [n, t, sc, scale, off, size, k, bo, w, x]                              *)
(*   k = "f" field (size bytes at off; size -1 = rest of payload, CH)      *)
(*   k = "x" bit flag: w bits at bit offset bo of the size-byte bitfield   *)
(*   k = "cfg" key/value items follow from off to the end                  *)
(*   x = 1 iff the entry is exposed as an attribute in this bitfield view  *)
(* fixes: attribute name -> value the generator must store there (group    *)
(* counts).  len = total length (-1 when open-ended).                      *)
(***************************************************************************)
RECURSIVE GenSeq(_, _, _, _, _), GenGroup(_, _, _, _, _, _), GenFlags(_, _, _, _, _, _, _)

GenFlags(flags, i, bo, off, bsize, sfx, G) ==
    IF i > Len(flags) THEN <<>>
    ELSE LET f == flags[i] IN
         <<[n |-> f.n \o sfx, t |-> f.t, sc |-> 0, scale |-> "", off |-> off, size |-> bsize, k |-> "x",
            bo |-> bo, w |-> f.s, x |-> IF G.pbf /\ ~IsReservedName(f.n) THEN 1 ELSE 0]>>
         \o GenFlags(flags, i + 1, bo + f.s, off, bsize, sfx, G)

GenEntry(e, sfx, st, G) ==
    CASE e.k = "f" ->
            [st EXCEPT !.off = IF e.t = "CH" \/ st.off < 0 THEN -1 ELSE st.off + e.s,
                       !.lay = Append(st.lay, [n |-> e.n \o sfx, t |-> e.t, sc |-> e.sc, scale |-> e.scale, off |-> st.off,
                                               size |-> IF e.t = "CH" THEN -1 ELSE e.s, k |-> "f", bo |-> 0, w |-> 0, x |-> 1])]
      [] e.k = "b" ->
            [st EXCEPT !.off = st.off + e.s,
                       !.lay = st.lay
                               \o (IF G.pbf THEN <<>>
                                   ELSE <<[n |-> e.n \o sfx, t |-> e.t, sc |-> 0, scale |-> "", off |-> st.off, size |-> e.s,
                                           k |-> "f", bo |-> 0, w |-> 0, x |-> 1]>>)
                               \o GenFlags(e.sub, 1, 0, st.off, e.s, sfx, G)]
      [] e.k = "g" ->
            IF IsCfgVal(G.mode, G.cls, G.id) THEN
                [st EXCEPT !.off = -1,
                           !.lay = Append(st.lay, [n |-> "cfgitems", t |-> "", sc |-> 0, scale |-> "", off |-> st.off, size |-> -1,
                                                   k |-> "cfg", bo |-> 0, w |-> 0, x |-> 0])]
            ELSE
            LET esf == G.cls = 16 /\ G.id = 2 /\ G.mode = SET
                cnt == CASE e.ck = "fixed" -> e.cn
                         [] e.ck = "var" -> G.c
                         [] OTHER -> IF esf THEN G.c + G.ttag ELSE G.c
                st1 == IF e.ck = "attr"
                       THEN [st EXCEPT !.fixes = st.fixes \o <<[n |-> e.cv, v |-> G.c]>>
                                                 \o (IF esf THEN <<[n |-> "calibTtagValid", v |-> G.ttag]>> ELSE <<>>)]
                       ELSE st
            IN GenGroup(e.sub, 1, cnt, sfx, st1, G)
      [] OTHER -> st

GenGroup(sub, i, cnt, sfx, st, G) ==
    IF i > cnt THEN st ELSE GenGroup(sub, i + 1, cnt, sfx, GenSeq(sub, 1, sfx \o Idx(i), st, G), G)

GenSeq(es, i, sfx, st, G) ==
    IF i > Len(es) THEN st ELSE GenSeq(es, i + 1, sfx, GenEntry(es[i], sfx, st, G), G)

LayoutGen(es, G) ==
    LET st == GenSeq(es, 1, "", [off |-> 0, lay |-> <<>>, fixes |-> <<>>], G)
    IN [lay |-> st.lay, fixes |-> st.fixes, len |-> st.off]

(***************************************************************************)
(* Routes: which class/ID and which discriminator bytes make the library   *)
(* select a given table entry (inverse of SelectDefName).                  *)
(***************************************************************************)
NameKeys(name) == {k \in MsgKeys : MsgIdMap[k] = name}
MinKey(ks) == CHOOSE k \in ks : \A j \in ks : k[1] < j[1] \/ (k[1] = j[1] /\ k[2] <= j[2])

SpecialRoutes ==
    [n \in {"CFG-TP5-TPX", "RXM-PMP-V0", "RXM-PMP-V1", "RXM-PMREQ-S", "TIM-VCOCAL-V0", "CFG-DAT-NUM",
            "AID-ALPSRV-SEND", "AID-ALPSRV-REQ", "RXM-RLM-S", "RXM-RLM-L", "CFG-NMEAvX", "CFG-NMEAv0",
            "NAV-AOPSTATUS-L", "NAV-RELPOSNED-V0", "NAV-RELPOSNED", "SEC-SIG-V1", "SEC-SIG-V2"} |->
        CASE n = "CFG-TP5-TPX"      -> [base |-> "CFG-TP5", bfix |-> <<>>]
          [] n = "RXM-PMP-V0"       -> [base |-> "RXM-PMP", bfix |-> <<[o |-> 0, v |-> 0]>>]
          [] n = "RXM-PMP-V1"       -> [base |-> "RXM-PMP", bfix |-> <<[o |-> 0, v |-> 1]>>]
          [] n = "RXM-PMREQ-S"      -> [base |-> "RXM-PMREQ", bfix |-> <<>>]
          [] n = "TIM-VCOCAL-V0"    -> [base |-> "TIM-VCOCAL", bfix |-> <<>>]
          [] n = "CFG-DAT-NUM"      -> [base |-> "CFG-DAT", bfix |-> <<>>]
          [] n = "AID-ALPSRV-SEND"  -> [base |-> "AID-ALPSRV", bfix |-> <<[o |-> 1, v |-> 255]>>]
          [] n = "AID-ALPSRV-REQ"   -> [base |-> "AID-ALPSRV", bfix |-> <<[o |-> 1, v |-> 1]>>]
          [] n = "RXM-RLM-S"        -> [base |-> "RXM-RLM", bfix |-> <<[o |-> 1, v |-> 1]>>]
          [] n = "RXM-RLM-L"        -> [base |-> "RXM-RLM", bfix |-> <<[o |-> 1, v |-> 2]>>]
          [] n = "CFG-NMEAvX"       -> [base |-> "CFG-NMEA", bfix |-> <<>>]
          [] n = "CFG-NMEAv0"       -> [base |-> "CFG-NMEA", bfix |-> <<>>]
          [] n = "NAV-AOPSTATUS-L"  -> [base |-> "NAV-AOPSTATUS", bfix |-> <<>>]
          [] n = "NAV-RELPOSNED-V0" -> [base |-> "NAV-RELPOSNED", bfix |-> <<[o |-> 0, v |-> 0]>>]
          [] n = "NAV-RELPOSNED"    -> [base |-> "NAV-RELPOSNED", bfix |-> <<[o |-> 0, v |-> 1]>>]
          [] n = "SEC-SIG-V1"       -> [base |-> "SEC-SIG", bfix |-> <<[o |-> 0, v |-> 1]>>]
          [] OTHER                  -> [base |-> "SEC-SIG", bfix |-> <<[o |-> 0, v |-> 2]>>]]

Route(name) ==
    IF name \in DOMAIN SpecialRoutes THEN
        LET r == SpecialRoutes[name] IN
        IF NameKeys(r.base) = {} THEN [ok |-> FALSE, cls |-> 0, id |-> 0, bfix |-> <<>>]
        ELSE LET k == MinKey(NameKeys(r.base)) IN [ok |-> TRUE, cls |-> k[1], id |-> k[2], bfix |-> r.bfix]
    ELSE IF NameKeys(name) = {} THEN [ok |-> FALSE, cls |-> 0, id |-> 0, bfix |-> <<>>]
    ELSE LET k == MinKey(NameKeys(name)) IN
         [ok |-> TRUE, cls |-> k[1], id |-> k[2],
          bfix |-> IF Len(k) = 3 THEN <<[o |-> 0, v |-> k[3]]>> ELSE <<>>]

(***************************************************************************)
(* A zero-filled payload for a layout, with the count attributes and the   *)
(* discriminator bytes set (used by the model-checking lemma that the two  *)
(* formulations - generate and parse - agree on every definition).         *)
(***************************************************************************)
LayIdx(lay, name) == {i \in 1..Len(lay) : lay[i].n = name /\ lay[i].k \in {"f", "x"} /\ (lay[i].k = "x" \/ lay[i].t # "")}
ByteAdds(lay, fixes, bfix, chlen) ==
    \* set of <<byteIndex(0-based), addend>> contributions
    UNION { LET s == {i \in LayIdx(lay, fixes[q].n) : lay[i].k = "x"}
                f == {i \in LayIdx(lay, fixes[q].n) : lay[i].k = "f"}
            IN IF s # {} THEN
                  LET e == lay[CHOOSE i \in s : TRUE] IN
                  { <<e.off + ((e.bo + b) \div 8), 2 ^ ((e.bo + b) % 8)>> :
                        b \in {b \in 0..(e.w - 1) : (fixes[q].v \div (2 ^ b)) % 2 = 1} }
               ELSE IF f # {} THEN
                  LET e == lay[CHOOSE i \in f : \A j \in f : i <= j] IN
                  { <<e.off, fixes[q].v % 256>> } \cup (IF e.size > 1 THEN { <<e.off + 1, fixes[q].v \div 256>> } ELSE {})
               ELSE {}
          : q \in 1..Len(fixes) }
    \cup { <<bfix[q].o, bfix[q].v>> : q \in 1..Len(bfix) }

ZeroFill(L, bfix, chlen) ==
    LET n == IF L.len >= 0 THEN L.len
             ELSE LET last == L.lay[Len(L.lay)] IN last.off + (IF last.k = "cfg" THEN 0 ELSE chlen)
        adds == ByteAdds(L.lay, L.fixes, bfix, chlen)
        isb == {a \in adds : \E q \in 1..Len(bfix) : a = <<bfix[q].o, bfix[q].v>>}
    IN [i \in 1..n |->
          LET mine == {a \in adds : a[1] = i - 1} IN
          IF mine = {} THEN 0
          ELSE IF mine \cap isb # {} THEN (CHOOSE a \in mine \cap isb : TRUE)[2]
          ELSE FoldLeft(LAMBDA acc, a : acc + a[2], 0, SetToSeq(mine))]

\* every group count the generator wants to store fits the attribute that holds it (e.g. numMeas is a 5-bit flag: c <= 31)
CountsFit(L) ==
    \A q \in 1..Len(L.fixes) :
        LET s == LayIdx(L.lay, L.fixes[q].n) IN
        \A i \in s : IF L.lay[i].k = "x" THEN L.fixes[q].v < 2 ^ L.lay[i].w
                      ELSE L.lay[i].size >= 4 \/ L.fixes[q].v < 256 ^ L.lay[i].size

\* names a layout exposes, in order (high-precision companions fold into their base attribute)
ExposedNames(lay) == SelectSeq([i \in 1..Len(lay) |-> IF lay[i].x = 1 /\ ~IsHP(lay[i].n) THEN lay[i].n ELSE ""], LAMBDA n : n # "")
AttrNames(attrs) == [i \in 1..Len(attrs) |-> attrs[i].n]

=============================================================================
