----------------------------- MODULE MC_Object -----------------------------
(* All interleavings of small workers; also the schedule generator for the deterministic line-level scheduler. *)
EXTENDS UbxObject, Json
CONSTANTS W1, W2, W3
MCWorkers2 == {W1, W2}
MCWorkers3 == {W1, W2, W3}
MCInputs == {"a", "b", "c"}
MCResults == {"ra", "rb", "rc"}
\* for schedule generation every input has one designated result
ResultOf(i) == CASE i = "a" -> "ra" [] i = "b" -> "rb" [] OTHER -> "rc"
DetNext == \E w \in Workers : (\E i \in Inputs : Begin(w, i)) \/ Micro(w) \/ End(w, ResultOf(thr[w].input))
DetSpec == Init /\ [][DetNext]_vars
WName(w) == IF w = W1 THEN 1 ELSE IF w = W2 THEN 2 ELSE 3
DumpSchedule == AllDone => PrintT(ToJson([k \in 1..Len(sched) |-> <<WName(sched[k][1]), sched[k][2], sched[k][3]>>]))
\* the schedule history does not influence behaviour: hide it from the state fingerprint in exhaustive runs
NoHistory == <<tables, out, thr, fn, done>>
=============================================================================
