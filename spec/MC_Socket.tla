------------------------------ MODULE MC_Socket ----------------------------
(***************************************************************************)
(* Every segmentation of a byte sequence x receive buffer size x sequence  *)
(* of wrapper calls: read(n) returns exactly n bytes or nothing, readline  *)
(* returns up to and including the next LF, nothing is lost, duplicated or *)
(* reordered, and what the caller sees does not depend on the segmentation.*)
(***************************************************************************)
EXTENDS UbxSocket, TLC, FiniteSets

CONSTANTS Bytes, BufSizes, MaxCalls

\* '$G\n' + b5 62 0a 00: an NMEA line, a UBX preamble with an embedded LF
Bytes7 == <<36, 71, 10, 181, 98, 10, 0>>
Bytes9 == <<36, 71, 13, 10, 181, 98, 10, 0, 211>>

\* all ways to cut sequence q into non-empty segments
RECURSIVE Cuts(_)
Cuts(q) == IF q = <<>> THEN {<<>>}
           ELSE UNION {{<<SubSeq(q, 1, k)>> \o r : r \in Cuts(SubSeq(q, k + 1, Len(q)))} : k \in 1..Len(q)}

VARIABLES s, bufsize, ncalls
vars == <<s, bufsize, ncalls>>

Init == /\ bufsize \in BufSizes
        /\ s \in {SockInit0(c) : c \in Cuts(Bytes)}
        /\ ncalls = 0

\* fine-grained actions: one per socket call / per wrapper call boundary
Ctor == s.pend = "ctor" /\ s' = CtorRecv(s, bufsize) /\ UNCHANGED <<bufsize, ncalls>>
CallRead == /\ s.pend = "none" /\ ncalls < MaxCalls
            /\ \E n \in 0..4 : s' = StartRead(s, n)
            /\ ncalls' = ncalls + 1 /\ UNCHANGED bufsize
CallLine == /\ s.pend = "none" /\ ncalls < MaxCalls
            /\ s' = StartLine(s) /\ ncalls' = ncalls + 1 /\ UNCHANGED bufsize
CallWrite == /\ s.pend = "none" /\ ncalls < MaxCalls
             /\ \E d \in {<<>>, <<181, 98>>} : s' = StartWrite(s, d)
             /\ ncalls' = ncalls + 1 /\ UNCHANGED bufsize
Recv == NeedsRecv(s) /\ s' = DoRecv(s, bufsize) /\ UNCHANGED <<bufsize, ncalls>>
Done == /\ s.pend \in {"read", "line", "write"} /\ ~NeedsRecv(s) /\ s' = Complete(s)
        /\ UNCHANGED <<bufsize, ncalls>>
Next == Ctor \/ CallRead \/ CallLine \/ CallWrite \/ Recv \/ Done
Spec == Init /\ [][Next]_vars

\* nothing lost, duplicated or reordered: what was returned + buffer + in flight is always the byte sequence
Conservation == Flat(s.results) \o (IF s.pend = "line" THEN s.line ELSE <<>>) \o s.buf \o Flat(s.net) = Bytes
\* results are consecutive slices
ResultsArePrefix == LET r == Flat(s.results) IN r = SubSeq(Bytes, 1, Len(r))
\* every completed call returned exactly what the byte sequence prescribes at its position: read(n) exactly n bytes or
\* nothing (nothing only if fewer than n bytes will ever arrive), readline up to and including the next LF
RECURSIVE PosBefore(_, _)
PosBefore(res, i) == IF i = 1 THEN 0 ELSE PosBefore(res, i - 1) + Len(res[i - 1])
ResultsAsPrescribed ==
    \A i \in 1..Len(s.results) :
        LET p == PosBefore(s.results, i)
            c == s.calls[i]
        IN s.results[i] = IF c.op = "read" THEN ExpectRead(Bytes, p, c.n) ELSE IF c.op = "write" THEN <<>> ELSE ExpectLine(Bytes, p)
\* outbound data: exactly the data of the write calls, in order; writing never issues a recv
WritesPassThrough == Len(s.sent) = Cardinality({i \in 1..Len(s.calls) : s.calls[i].op = "write"})
\* the buffer never holds more than one receive beyond what was asked for
BufferBounded == Len(s.buf) <= 4 + (CHOOSE m \in BufSizes : \A x \in BufSizes : x <= m) + Len(Bytes)
=============================================================================
