----------------------------- MODULE UbxFrame ------------------------------
(***************************************************************************)
(* L1: the UBX frame.                                                      *)
(*   b5 62 | cls | id | lenLo lenHi | payload ... | ckA ckB                *)
(* WellFormed is the *definition* the properties C01/C04/C05 speak of;     *)
(* Decide is the decision procedure of UBXReader.parse as designed, with   *)
(* the pinned tree's deviations available as named switches so that TLC    *)
(* can exhibit what they admit.                                            *)
(***************************************************************************)
EXTENDS UbxBytes

SYNC1 == 181
SYNC2 == 98

WellFormed(f) ==
    /\ Len(f) >= 8
    /\ f[1] = SYNC1 /\ f[2] = SYNC2
    /\ LE16(f[5], f[6]) = Len(f) - 8
    /\ <<f[Len(f) - 1], f[Len(f)]>> = Fletcher8(SubSeq(f, 3, Len(f) - 2))

\* fields of a well-formed frame
Fields(f) == [cls |-> f[3], id |-> f[4], len |-> LE16(f[5], f[6]),
              payload |-> SubSeq(f, 7, Len(f) - 2)]

UbxSerialize(cls, id, payload) ==
    LET body == <<cls, id>> \o Limbs(Len(payload), 2) \o payload
    IN <<SYNC1, SYNC2>> \o body \o Fletcher8(body)

(***************************************************************************)
(* The decision procedure, slice by slice as the code takes them (Python   *)
(* slices never fail, they clamp).  Switches:                              *)
(*   zeroLenShortcut : a length field of 00 00 makes the payload "absent"  *)
(*                     and skips the comparison with the real length       *)
(*   noMinLength     : no check that the message has at least 8 bytes      *)
(* The registered design has both FALSE.                                   *)
(***************************************************************************)
Decide(f, validate, zeroLenShortcut, noMinLength) ==
    LET n    == Len(f)
        hdr  == Slice(f, 0, 2)
        lenb == Slice(f, 4, 6)
        zl   == zeroLenShortcut /\ lenb = <<0, 0>>
        pl   == IF zl THEN <<>> ELSE Slice(f, 6, n - 2)
        ckm  == Slice(f, IF n - 2 < 0 THEN 0 ELSE n - 2, n)
        ckv  == Fletcher8(Slice(f, 2, 6) \o pl)
        lenv == IF Len(lenb) = 2 THEN LE16(lenb[1], lenb[2])
                ELSE IF Len(lenb) = 1 THEN lenb[1] ELSE 0
    IN IF validate = 0 THEN "accept"
       ELSE IF hdr # <<SYNC1, SYNC2>> THEN "reject"
       ELSE IF ~noMinLength /\ n < 8 THEN "reject"
       ELSE IF Len(pl) # lenv THEN "reject"
       ELSE IF ckm # ckv THEN "reject"
       ELSE "accept"

(***************************************************************************)
(* SETPOLL resolution heuristic (ubxhelpers.getinputmode) as designed:     *)
(* POLL iff the frame has no payload, or is CFG-VALGET, or is one of the   *)
(* four CFG messages whose poll carries a 1-2 byte selector.               *)
(***************************************************************************)
PollWithSelector == { <<6, 1>>, <<6, 2>>, <<6, 0>>, <<6, 49>> }  \* CFG-MSG, CFG-INF, CFG-PRT, CFG-TP5

InputMode(f, selectorSet) ==
    IF Len(f) = 8 \/ Slice(f, 2, 4) = <<6, 139>>
       \/ (Slice(f, 2, 4) \in selectorSet /\ Len(f) <= 10)
    THEN "POLL" ELSE "SET"

(***************************************************************************)
(* Growth beyond the listed properties: the mode gates of the three entry  *)
(* points.  A stream reader and UBXReader.parse take GET, SET, POLL and    *)
(* SETPOLL (0..3); a message is constructed in GET, SET or POLL (0..2).    *)
(* Anything else is refused at the door with the entry point's own error.  *)
(***************************************************************************)
ModeGate(api, m) ==
    CASE api = "reader"  -> IF m \in 0..3 THEN "ok" ELSE "UBXStreamError"
      [] api = "parse"   -> IF m \in 0..3 THEN "ok" ELSE "UBXParseError"
      [] api = "message" -> IF m \in 0..2 THEN "ok" ELSE "UBXMessageError"
      [] OTHER -> "?"

\* What the reader reads from: a socket.socket instance (whatever else it can do - ssl.SSLSocket has a read() of its own) is wrapped in
\* a SocketWrapper; anything else - files, pipes, serial ports, objects that merely have a recv() - is used as it is.
\* kind = <<is a socket.socket instance, has read(), has recv()>>
WrapRule(kind) == IF kind[1] THEN "wrapper" ELSE "same"
=============================================================================
