SPECIFICATION Spec
CONSTANTS
  MaxLen = 4
  ZeroEof = FALSE
  Quits = {0, 1, 2}
  Socks = {FALSE}
  Filters = {0, 1, 2, 3, 4, 5, 6, 7}
INVARIANT InvNothingLeft
INVARIANT InvSlices
INVARIANT InvRaiseOnlyIfAsked
INVARIANT InvQuietWhenIgnoring
INVARIANT InvPos
INVARIANT InvMask
PROPERTY AppendOnly
PROPERTY Terminates
CHECK_DEADLOCK FALSE
