----------------------------- MODULE UbxSocket -----------------------------
(***************************************************************************)
(* L5: SocketWrapper - a stream-like read(n) / readline() over a socket.   *)
(* The network delivers the byte sequence as SEGMENTS; recv(bufsize)       *)
(* returns at most bufsize bytes of the head segment (TCP semantics);      *)
(* after the last byte the peer closes (recv -> empty) or the receive      *)
(* times out (recv raises): either way the wrapper's _recv reports failure.*)
(*                                                                         *)
(* State  s = [net, buf, pend, need, line, results, recvs]                 *)
(*   net     segments still in flight          buf   internal buffer       *)
(*   pend    "none" | "read" | "line"          need  bytes wanted          *)
(*   line    line collected so far             results  returned values    *)
(* One action per socket call (Recv) and per wrapper call start/return.    *)
(***************************************************************************)
EXTENDS UbxBytes

SockInit0(segs) == [net |-> segs, buf |-> <<>>, pend |-> "ctor", need |-> 0, line |-> <<>>, results |-> <<>>, calls |-> <<>>,
                    sent |-> <<>>, wlen |-> 0]

Min3(a, b) == IF a < b THEN a ELSE b

\* the bytes one recv(bufsize) obtains (<<>> when nothing is in flight any more: close or timeout)
RecvData(s, bufsize) == IF s.net = <<>> THEN <<>> ELSE SubSeq(Head(s.net), 1, Min3(bufsize, Len(Head(s.net))))

\* state of the network after that recv
AfterRecv(s, bufsize) ==
    IF s.net = <<>> THEN s.net
    ELSE LET h == Head(s.net)
             k == Min3(bufsize, Len(h))
         IN IF k = Len(h) THEN Tail(s.net) ELSE <<SubSeq(h, k + 1, Len(h))>> \o Tail(s.net)

\* --- actions (as functions state -> state) ---
\* the constructor primes the buffer with one recv
CtorRecv(s, bufsize) == [s EXCEPT !.buf = s.buf \o RecvData(s, bufsize), !.net = AfterRecv(s, bufsize), !.pend = "none"]

StartRead(s, n) == [s EXCEPT !.pend = "read", !.need = n, !.calls = Append(s.calls, [op |-> "read", n |-> n])]
StartLine(s) == [s EXCEPT !.pend = "line", !.need = 1, !.line = <<>>, !.calls = Append(s.calls, [op |-> "line", n |-> 0])]

\* write(data): handed to socket.send() as is, once; touches neither the receive buffer nor the network's inbound side;
\* returns what send() returns (here: everything was sent)
StartWrite(s, d) == [s EXCEPT !.pend = "write", !.wlen = Len(d), !.sent = Append(s.sent, d),
                              !.calls = Append(s.calls, [op |-> "write", n |-> Len(d)])]

\* a recv is issued exactly when a pending request finds fewer than `need` bytes buffered
NeedsRecv(s) == s.pend \in {"read", "line"} /\ Len(s.buf) < s.need

DoRecv(s, bufsize) ==
    LET d == RecvData(s, bufsize) IN
    IF d = <<>> THEN
        \* failure: read() returns nothing (the buffer is kept); readline() returns what it has collected
        (IF s.pend = "read" THEN [s EXCEPT !.pend = "none", !.results = Append(s.results, <<>>)]
         ELSE [s EXCEPT !.pend = "none", !.results = Append(s.results, s.line)])
    ELSE [s EXCEPT !.buf = s.buf \o d, !.net = AfterRecv(s, bufsize)]

\* enough bytes buffered: complete (one byte at a time for readline)
Complete(s) ==
    IF s.pend = "write" THEN [s EXCEPT !.pend = "none", !.results = Append(s.results, <<>>)]   \* (contributes no inbound bytes)
    ELSE IF s.pend = "read" THEN
        [s EXCEPT !.pend = "none", !.buf = SubSeq(s.buf, s.need + 1, Len(s.buf)),
                  !.results = Append(s.results, SubSeq(s.buf, 1, s.need))]
    ELSE LET b == s.buf[1]
             l == Append(s.line, b)
         IN IF b = 10 THEN [s EXCEPT !.pend = "none", !.buf = Tail(s.buf), !.results = Append(s.results, l)]
            ELSE [s EXCEPT !.buf = Tail(s.buf), !.line = l]

\* run a pending request to its return
RECURSIVE Finish(_, _)
Finish(s, bufsize) ==
    IF s.pend = "none" THEN s
    ELSE IF s.pend = "ctor" THEN Finish(CtorRecv(s, bufsize), bufsize)
    ELSE IF NeedsRecv(s) THEN Finish(DoRecv(s, bufsize), bufsize)
    ELSE Finish(Complete(s), bufsize)

Write(s, d, bufsize) == Finish(StartWrite(Finish(s, bufsize), d), bufsize)
Read(s, n, bufsize) == Finish(StartRead(Finish(s, bufsize), n), bufsize)
ReadLine(s, bufsize) == Finish(StartLine(Finish(s, bufsize)), bufsize)
LastResult(s) == s.results[Len(s.results)]

\* what a call at stream position p must return, as a function of the byte sequence alone (the property C10 states)
ExpectRead(B, p, n) == IF Len(B) - p >= n THEN SubSeq(B, p + 1, p + n) ELSE <<>>
ExpectLine(B, p) ==
    LET lf == {i \in (p + 1)..Len(B) : B[i] = 10}
    IN IF lf = {} THEN SubSeq(B, p + 1, Len(B)) ELSE SubSeq(B, p + 1, CHOOSE i \in lf : \A j \in lf : i <= j)

RECURSIVE Flat(_)
Flat(segs) == IF segs = <<>> THEN <<>> ELSE Head(segs) \o Flat(Tail(segs))
=============================================================================
