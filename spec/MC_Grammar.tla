----------------------------- MODULE MC_Grammar ----------------------------
(***************************************************************************)
(* Exhaustive over the tables of the working tree: one state per payload   *)
(* table entry, per message-ID entry, per variant key and per              *)
(* configuration key.  Every verdict other than "ok" is printed; the       *)
(* harness turns them into C16 / C14 violations (or known findings).       *)
(***************************************************************************)
EXTENDS UbxGrammar

VARIABLES kind, m, name, idx
vars == <<kind, m, name, idx>>

Init == \/ kind = "def" /\ m \in 0..2 /\ name \in DOMAIN Table(m) /\ idx = 0
        \/ kind = "cfg" /\ m = 0 /\ name = "" /\ idx \in 1..Len(Defs.cfgdb)
        \/ kind = "variant" /\ m \in 0..2 /\ name = "" /\ idx \in 1..Len(Defs.variants[ModeName(m)])
        \/ kind = "msgid" /\ m = 0 /\ name = "" /\ idx \in 1..Len(Defs.msgids)
Next == UNCHANGED vars
Spec == Init /\ [][Next]_vars

Verdict ==
    CASE kind = "def" -> GrammarVerdict(Table(m)[name])
      [] kind = "cfg" -> CfgVerdict(idx)
      [] kind = "variant" -> IF Defs.variants[ModeName(m)][idx] \in KnownVariantKeys(m) THEN "ok" ELSE "variant-selector-unknown-to-spec"
      [] OTHER -> LET k == Defs.msgids[idx].key IN
                  IF Len(k) \notin {2, 3} THEN "msgid-key-length"
                  ELSE IF Len(k) = 3 /\ k[1] # 19 THEN "three-byte-key-outside-MGA"
                  ELSE "ok"

Report == LET v == Verdict IN
          v # "ok" => PrintT("G " \o kind \o " " \o ModeName(m) \o " " \o (IF kind = "def" THEN name ELSE ToString(idx)) \o " " \o v)
=============================================================================
