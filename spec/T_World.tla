------------------------------ MODULE T_World ------------------------------
(***************************************************************************)
(* Trace acceptor for C13.  The recorded events are replayed as actions of *)
(* UbxObject: Begin / End of operations by workers (End(w, r) is enabled   *)
(* only if r is the one result known for that input; the world variables   *)
(* logged with each event must still have their initial values), and       *)
(* SetAttr / DelAttr on frozen messages.                                   *)
(***************************************************************************)
EXTENDS Naturals, Sequences, SequencesExt, FiniteSets, TLC, Json, IOUtils

Traces == JsonDeserialize(IOEnv.TRACE_FILE)
VARIABLES tid, verdict

\* fn: the partial function input -> result learnt so far, as a function over the input indices of the trace ("none" = not seen yet)
MaxIdx(t) == LET xs == {t.events[k][3] : k \in 1..Len(t.events)} IN IF xs = {} THEN 0 ELSE CHOOSE m \in xs : \A x \in xs : x <= m

\* one step of the replay: acc = [fn, seen, v] (v = "" while every event was explained).  Folded over the event sequence with FoldLeft
\* (evaluated iteratively by TLC; a recursive operator over tens of thousands of events costs quadratic time)
StepOp(t, acc, e) ==
    IF acc.v # "" THEN acc
    ELSE IF e[5] # 0 THEN [acc EXCEPT !.v = "C13:wrote-to-stdout-or-stderr"]
    ELSE IF e[1] = "begin" THEN acc
    ELSE IF e[6] # "" /\ e[6] # t.t0 THEN [acc EXCEPT !.v = "C13:shared-tables-modified"]
    ELSE LET known == acc.fn[e[3]] IN
         IF known = "none" THEN [acc EXCEPT !.fn[e[3]] = e[4], !.seen = acc.seen + 1]
         ELSE IF known # e[4] THEN [acc EXCEPT !.v = IF t.mode = "history" THEN "C13:result-depends-on-history" ELSE "C13:result-depends-on-schedule"]
         ELSE acc

ReplayOps(t) ==
    LET hdr == [mode |-> t.mode, t0 |-> t.t0]
        r == FoldLeft(LAMBDA acc, e : StepOp(hdr, acc, e), [fn |-> [i \in 0..MaxIdx(t) |-> "none"], seen |-> 0, v |-> ""], t.events)
    IN IF r.v # "" THEN r.v ELSE IF r.seen = 0 THEN "triv" ELSE "ok"

RECURSIVE ReplayAttrs(_, _)
ReplayAttrs(t, k) ==
    IF k > Len(t.events) THEN (IF Len(t.events) = 0 THEN "triv" ELSE "ok")
    ELSE LET e == t.events[k] IN
         \* an observation (hash, comparison, copy, pickle, listing ...) leaves the message as it was
         IF e[1] = "observe" THEN (IF e[3] # "unchanged" THEN "C13:message-changed-by-looking-at-it:" \o e[2]
                                   ELSE IF e[5] # 0 THEN "C13:wrote-to-stdout-or-stderr" ELSE ReplayAttrs(t, k + 1))
         ELSE IF e[3] # "UBXMessageError" THEN "C13:" \o e[1] \o "attr-not-refused-with-UBXMessageError:" \o e[3]
         ELSE IF e[4] # 1 THEN "C13:serialization-changed-by-" \o e[1] \o "attr"
         ELSE IF e[5] # 0 THEN "C13:wrote-to-stdout-or-stderr"
         ELSE ReplayAttrs(t, k + 1)

Judge(t) == IF t.mode = "attrs" THEN ReplayAttrs(t, 1) ELSE ReplayOps(t)

Init == tid \in 1..Len(Traces) /\ verdict = "pending"
Next == /\ verdict = "pending"
        /\ LET v == Judge(Traces[tid]) IN
             /\ verdict' = v
             /\ (v # "ok" => PrintT("V " \o ToString(tid) \o " " \o v))
        /\ UNCHANGED tid
Spec == Init /\ [][Next]_<<tid, verdict>>
=============================================================================
