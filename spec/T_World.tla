------------------------------ MODULE T_World ------------------------------
(***************************************************************************)
(* Trace acceptor for C13.  The recorded events are replayed as actions of *)
(* UbxObject: Begin / End of operations by workers (End(w, r) is enabled   *)
(* only if r is the one result known for that input; the world variables   *)
(* logged with each event must still have their initial values), and       *)
(* SetAttr / DelAttr on frozen messages.                                   *)
(***************************************************************************)
EXTENDS Naturals, Sequences, FiniteSets, TLC, Json, IOUtils

Traces == JsonDeserialize(IOEnv.TRACE_FILE)
VARIABLES tid, verdict

\* fn: sequence of <<input, result>> learnt so far
Lookup(fn, i) == LET s == {k \in 1..Len(fn) : fn[k][1] = i} IN IF s = {} THEN "none" ELSE fn[CHOOSE k \in s : TRUE][2]

RECURSIVE ReplayOps(_, _, _)
ReplayOps(t, k, fn) ==
    IF k > Len(t.events) THEN (IF Len(fn) = 0 THEN "triv" ELSE "ok")
    ELSE LET e == t.events[k] IN
         IF e[5] # 0 THEN "C13:wrote-to-stdout-or-stderr"
         ELSE IF e[1] = "begin" THEN ReplayOps(t, k + 1, fn)
         ELSE IF e[6] # "" /\ e[6] # t.t0 THEN "C13:shared-tables-modified"
         ELSE LET known == Lookup(fn, e[3]) IN
              IF known = "none" THEN ReplayOps(t, k + 1, Append(fn, <<e[3], e[4]>>))
              ELSE IF known # e[4] THEN (IF t.mode = "history" THEN "C13:result-depends-on-history" ELSE "C13:result-depends-on-schedule")
              ELSE ReplayOps(t, k + 1, fn)

RECURSIVE ReplayAttrs(_, _)
ReplayAttrs(t, k) ==
    IF k > Len(t.events) THEN (IF Len(t.events) = 0 THEN "triv" ELSE "ok")
    ELSE LET e == t.events[k] IN
         IF e[3] # "UBXMessageError" THEN "C13:" \o e[1] \o "attr-not-refused-with-UBXMessageError:" \o e[3]
         ELSE IF e[4] # 1 THEN "C13:serialization-changed-by-" \o e[1] \o "attr"
         ELSE IF e[5] # 0 THEN "C13:wrote-to-stdout-or-stderr"
         ELSE ReplayAttrs(t, k + 1)

Judge(t) == IF t.mode = "attrs" THEN ReplayAttrs(t, 1) ELSE ReplayOps(t, 1, <<>>)

Init == tid \in 1..Len(Traces) /\ verdict = "pending"
Next == /\ verdict = "pending"
        /\ LET v == Judge(Traces[tid]) IN
             /\ verdict' = v
             /\ (v # "ok" => PrintT("V " \o ToString(tid) \o " " \o v))
        /\ UNCHANGED tid
Spec == Init /\ [][Next]_<<tid, verdict>>
=============================================================================
