SPECIFICATION Spec
CONSTANTS
  MaxDepth = 0
  ZeroLenShortcut = FALSE
  NoMinLength = FALSE
  Dump = FALSE
INVARIANT AcceptOnlyWellFormed
INVARIANT AcceptAllWellFormed
INVARIANT RoundTrip
INVARIANT LemmaFramesWellFormed
CHECK_DEADLOCK FALSE
