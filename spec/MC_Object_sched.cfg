SPECIFICATION DetSpec
CONSTANTS
  W1 = W1
  W2 = W2
  W3 = W3
  Workers <- MCWorkers3
  Inputs <- MCInputs
  Results <- MCResults
  Steps = 4
  MaxOps = 2
INVARIANT DumpSchedule
CHECK_DEADLOCK FALSE
