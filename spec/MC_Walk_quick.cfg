SPECIFICATION Spec
CONSTANTS
  Counts = {0, 1, 2, 3}
  Dump = TRUE
  Only = {}
INVARIANT GenParseAgree
INVARIANT LayoutMonotone
INVARIANT BuildParseRoundTrip
INVARIANT DumpLayout
CHECK_DEADLOCK FALSE
