----------------------------- MODULE UbxGrammar ----------------------------
(***************************************************************************)
(* The documented grammar of payload definitions (README "Extensibility",  *)
(* ubxtypes_core) as predicates over one exported table entry, and the     *)
(* static laws of the configuration database.                              *)
(***************************************************************************)
EXTENDS UbxWalk

ValidTypes == {Defs.types[i] : i \in 1..Len(Defs.types)}
BitfieldTypes == {"X001", "X002", "X004", "X006", "X008", "X024"}
Reserved == {Defs.reserved[i] : i \in 1..Len(Defs.reserved)}
IsTypeString(t) == Len(t) = 4 /\ \A j \in 2..4 : SubSeq(t, j, j) \in {"0", "1", "2", "3", "4", "5", "6", "7", "8", "9"}
IntegerKind(t) == Len(t) >= 1 /\ SubSeq(t, 1, 1) \in {"U", "E", "L", "I"}

RECURSIVE Flatten(_, _, _)
\* all entries with their depth: sequence of [e, d]
Flatten(es, i, d) ==
    IF i > Len(es) THEN <<>>
    ELSE <<[e |-> es[i], d |-> d]>> \o (IF es[i].k = "g" THEN Flatten(es[i].sub, 1, d + 1) ELSE <<>>) \o Flatten(es, i + 1, d)

Classified(es) == \A x \in {Flatten(es, 1, 0)[i] : i \in 1..Len(Flatten(es, 1, 0))} :
                      x.e.k \in {"f", "b", "g"} /\ (x.e.k = "b" => \A j \in 1..Len(x.e.sub) : x.e.sub[j].k = "x")

TypesValid(fl) == \A i \in 1..Len(fl) :
    LET e == fl[i].e IN
    CASE e.k = "f" -> e.t \in ValidTypes
      [] e.k = "b" -> e.t \in BitfieldTypes /\ \A j \in 1..Len(e.sub) : IsTypeString(e.sub[j].t) /\ e.sub[j].s >= 1
      [] OTHER -> TRUE

ScaleWellFormed(fl) == \A i \in 1..Len(fl) :
    LET e == fl[i].e IN (e.k = "f" /\ e.sc = 1) => SubSeq(e.t, 1, 1) \in {"U", "E", "I", "R"}

BitsFit(fl) == \A i \in 1..Len(fl) :
    LET e == fl[i].e IN e.k = "b" => FoldLeft(LAMBDA a, f : a + f.s, 0, e.sub) <= 8 * e.s

\* names exposed at top level before position i (fields, bitfield names under the raw view, flags under the flag view)
TopIntFieldsBefore(es, i) == {es[j].n : j \in {j \in 1..(i - 1) : es[j].k = "f" /\ IntegerKind(es[j].t) /\ es[j].sc = 0}}
TopFlagsBefore(es, i) == UNION {{es[j].sub[q].n : q \in 1..Len(es[j].sub)} : j \in {j \in 1..(i - 1) : es[j].k = "b"}}

\* counted groups: the count is an EARLIER top-level integer attribute (or an integer bit flag)
RECURSIVE CountsResolvable(_, _, _)
CountsResolvable(top, es, isTop) ==
    \A i \in 1..Len(es) :
        es[i].k = "g" =>
            /\ (es[i].ck = "attr" =>
                  LET lim == IF isTop THEN i ELSE Len(top) + 1
                  IN es[i].cv \in TopIntFieldsBefore(top, lim) \cup TopFlagsBefore(top, lim))
            /\ CountsResolvable(top, es[i].sub, FALSE)
CountIsBitflag(top) == \E i \in 1..Len(top) : top[i].k = "g" /\ top[i].ck = "attr" /\ top[i].cv \notin TopIntFieldsBefore(top, i)
                                               /\ top[i].cv \in TopFlagsBefore(top, i)

\* at most one variable-by-size group, it is top-level, last, non-empty and made of fixed-size members
VarGroupOK(es, fl) ==
    LET vg == {i \in 1..Len(fl) : fl[i].e.k = "g" /\ fl[i].e.ck = "var"} IN
    /\ Cardinality(vg) <= 1
    /\ \A i \in vg : fl[i].d = 0
    /\ \A i \in 1..Len(es) : (es[i].k = "g" /\ es[i].ck = "var") =>
            i = Len(es) /\ GroupSize(es[i].sub) > 0 /\ \A j \in 1..Len(es[i].sub) : es[i].sub[j].k # "g" /\ es[i].sub[j].t # "CH"

\* a variable-length string is the last thing in the payload
ChLast(es, fl) == \A i \in 1..Len(fl) : (fl[i].e.k = "f" /\ fl[i].e.t = "CH") => (fl[i].d = 0 /\ fl[i].e.n = es[Len(es)].n)

\* exposed names per depth, for a bitfield view
NamesAtDepth(fl, d, pbf) ==
    LET idx == {i \in 1..Len(fl) : fl[i].d = d} IN
    [i \in idx |->
        LET e == fl[i].e IN
        CASE e.k = "f" -> IF IsHP(e.n) THEN <<>> ELSE <<e.n>>
          [] e.k = "b" -> IF pbf THEN SelectSeq([j \in 1..Len(e.sub) |-> e.sub[j].n], LAMBDA n : ~IsReservedName(n))
                          ELSE <<e.n>>
          [] OTHER -> <<>>]
AllNames(fl, d, pbf) == LET na == NamesAtDepth(fl, d, pbf) IN
    FoldLeft(LAMBDA acc, i : acc \o na[i], <<>>, SetToSortSeq(DOMAIN na, LAMBDA a, b : a < b))
Unique(seq) == \A i \in 1..Len(seq) : \A j \in 1..Len(seq) : i # j => seq[i] # seq[j]
MaxDepth(fl) == IF fl = <<>> THEN 0 ELSE LET ds == {fl[i].d : i \in 1..Len(fl)} IN CHOOSE d \in ds : \A x \in ds : x <= d
NamesUnique(fl, pbf) == \A d \in 0..MaxDepth(fl) : Unique(AllNames(fl, d, pbf))
DupName(fl, pbf) == LET s == AllNames(fl, CHOOSE d \in 0..MaxDepth(fl) : ~Unique(AllNames(fl, d, pbf)), pbf)
                    IN s[CHOOSE i \in 1..Len(s) : \E j \in 1..Len(s) : i # j /\ s[i] = s[j]]

NoReservedCollision(fl, pbf) == \A i \in 1..Len(AllNames(fl, 0, pbf)) : AllNames(fl, 0, pbf)[i] \notin Reserved
CollidingName(fl, pbf) == LET s == AllNames(fl, 0, pbf) IN s[CHOOSE i \in 1..Len(s) : s[i] \in Reserved]

\* a high precision companion follows its base attribute in the same scope
HPHasBase(fl) == \A i \in 1..Len(fl) :
    (fl[i].e.k = "f" /\ IsHP(fl[i].e.n)) =>
        \E j \in 1..(i - 1) : fl[j].d = fl[i].d /\ fl[j].e.k = "f" /\ fl[j].e.n = SubSeq(fl[i].e.n, 4, Len(fl[i].e.n))

\* first failing clause of the grammar, "ok" if none
GrammarVerdict(es) ==
    IF ~Classified(es) THEN "unclassified-entry"
    ELSE LET fl == Flatten(es, 1, 0) IN
         IF ~TypesValid(fl) THEN "invalid-attribute-type"
         ELSE IF ~ScaleWellFormed(fl) THEN "scale-on-non-numeric"
         ELSE IF ~BitsFit(fl) THEN "flags-exceed-bitfield"
         ELSE IF ~CountsResolvable(es, es, TRUE) THEN "group-count-not-an-earlier-integer-attribute"
         ELSE IF ~VarGroupOK(es, fl) THEN "variable-group-not-single-and-last"
         ELSE IF ~ChLast(es, fl) THEN "variable-string-not-last"
         ELSE IF ~HPHasBase(fl) THEN "hp-without-base"
         ELSE IF ~NamesUnique(fl, TRUE) THEN "duplicate-name:" \o DupName(fl, TRUE)
         ELSE IF ~NamesUnique(fl, FALSE) THEN "duplicate-name-rawview:" \o DupName(fl, FALSE)
         ELSE IF ~NoReservedCollision(fl, TRUE) THEN "name-collides-with-UBXMessage-attribute:" \o CollidingName(fl, TRUE)
         ELSE IF ~NoReservedCollision(fl, FALSE) THEN "name-collides-with-UBXMessage-attribute:" \o CollidingName(fl, FALSE)
         ELSE IF CountIsBitflag(es) THEN "group-count-is-a-bit-flag"
         ELSE "ok"

(***************************************************************************)
(* Configuration database laws (C14/C16)                                   *)
(***************************************************************************)
CfgVerdict(i) ==
    LET e == Defs.cfgdb[i]
        code == e.key[4] \div 16
        same == {j \in 1..Len(Defs.cfgdb) : Defs.cfgdb[j].key = e.key}
    IN IF e.t \notin ValidTypes THEN "cfg-invalid-type"
       ELSE IF StorSize(code) < 0 THEN "cfg-size-code"
       ELSE IF TypeSize(e.t) # StorSize(code) THEN "cfg-type-width-differs-from-size-code"
       ELSE IF e.key[4] >= 128 THEN "cfg-reserved-bit"
       ELSE IF \E j \in same : j < i THEN "cfg-key-id-aliases-earlier-name:" \o Defs.cfgdb[CHOOSE j \in same : \A q \in same : j <= q].n
       ELSE "ok"

=============================================================================
